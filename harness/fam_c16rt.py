"""Correspondence family `c16rt`: the COMPOSED round trip of property C16 - the real `parse.function` /
`parse.argparse_ast` / `parse.class_` followed by the real `emit.function` / `emit.argparse_function` / `emit.class_`
against coq/model/C16RoundTrip.v (`c16rt_function`, `c16rt_argparse`, `c16rt_class`: the kind's parser model then the
kind's emitter model).

Observation compared: the re-emitted statement (astwire.enc_stmt of the FunctionDef / ClassDef the real emitter
returned), byte for byte on the wire; exceptions of either conversion by kind.

Boundary inputs of the model, recorded from the very calls being compared (see notes/c16rt_wire.md):
  d / di  what the docstring parser returned to the real parser (function: the real parse.docstring on the docstring;
          argparse / class: fam_parseast._Recorder around doctrans.parse.parse_docstring / doctrans.parse.docstring);
  tds/ds  what doctrans.emit.to_docstring / doctrans.emit.docstring returned inside the real emitter (fam_emitast.Recorder);
  pt      ast.parse of every str default / type string of the IR the REAL parser produced (before the emitter ran and at
          every to_docstring call), as fam_emitast.emitter_request builds it.
When the real parser raises, tds / ds = (err Unmodelled) and pt = (): the model's parser then fails first.

Cases carry SOURCE TEXT (JSON-able): functions / methods (prop_C16's `fromsrc` generator, fam_parsesig.gen_def with and
without a generated body, definitions picked out of gen_module modules, definitions the real emit.function wrote),
argparse functions (fam_parseast.gen_argparse_src with generated body statements spliced in, emitted ones), classes
(fam_parseast.gen_class_src, fam_parsesig.gen_class, classes of gen_module modules, emitted ones with a __call__, and
`gen_class_with_body`: attributes interleaved with methods - also an existing __call__ -, nested classes, plain
statements)."""
import ast
import collections
import copy
import json
import os
import sys
from collections import OrderedDict

HERE = os.path.dirname(os.path.abspath(__file__))
if HERE not in sys.path:
    sys.path.insert(0, HERE)

from common import Sym, dumps, opt, impl, exc_kind  # noqa: E402
import astwire  # noqa: E402
import irwire  # noqa: E402
import gen_ir  # noqa: E402
import gen_module  # noqa: E402
import gen_text as G  # noqa: E402
import fam_emitast  # noqa: E402
import fam_parsesig  # noqa: E402
import fam_parseast  # noqa: E402

NAME = "c16rt"
UNMODELLED = [Sym("err"), Sym("Unmodelled")]
GEN_DROPS = collections.Counter()      # why generated cases were not admitted (development aid)


# ------------------------------------------------------------------ small helpers
def _is_docstring_stmt(s):
    return isinstance(s, ast.Expr) and isinstance(s.value, ast.Constant) and isinstance(s.value.value, str)


def _indent(text, ind="    "):
    return "\n".join(ind + l if l else "" for l in text.split("\n"))


def _kind_of(fd):
    a = fd.args.args
    return a[0].arg if a and a[0].arg in ("self", "cls") else "static"


def _valid(src):
    try:
        ast.parse(src)
        return True
    except (SyntaxError, ValueError, MemoryError, RecursionError):
        return False


def _ir_for_emit(rng, kind):
    """a generated interface with a generated body attached (what the oracle of prop_C16 hands to the emitters)"""
    ir, tags = gen_ir.gen_ir(rng, clean=rng.random() < 0.5)
    spec = {"name": "f", "type": "static", "doc": ir["doc"],
            "params": OrderedDict((k, dict(v)) for k, v in ir["params"].items()),
            "returns": None if ir["returns"] is None else OrderedDict((k, dict(v)) for k, v in ir["returns"].items())}
    for r_ in (spec["returns"] or {}).values():
        if not r_.get("doc") and rng.random() < 0.85:
            r_["doc"] = "the result."
    body_src = fam_emitast.gen_body_src(rng, list(spec["params"]), allow_opaque_params=rng.random() < 0.25,
                                        kind="argparse" if kind == "argparse" else "function")
    return spec, body_src


def _emitted_src(rng, kind):
    """source text the REAL emitter writes for a generated interface + body; None when it raises"""
    m = impl()
    spec, body_src = _ir_for_emit(rng, kind)
    ww, edd = rng.random() < 0.5, rng.random() < 0.5
    try:
        if kind == "function":
            ft = rng.choice(["static", "static", "self", "cls"])
            spec["_internal"] = {"body_src": body_src, "from_name": "f", "from_type": ft}
            node = m.emit.function(fam_emitast.materialise_ir(spec), "f", ft, word_wrap=ww, emit_default_doc=edd,
                                   inline_types=rng.random() < 0.5, emit_as_kwonlyargs=rng.random() < 0.5)
        elif kind == "argparse":
            spec["_internal"] = {"body_src": body_src, "from_name": "set_cli_args", "from_type": "static"}
            node = m.emit.argparse_function(fam_emitast.materialise_ir(spec), emit_default_doc=edd, word_wrap=ww)
        else:
            spec["_internal"] = {"body_src": body_src, "from_name": "C", "from_type": "static"}
            node = m.emit.class_(fam_emitast.materialise_ir(spec), emit_call=rng.random() < 0.8, class_name="C",
                                 word_wrap=ww, emit_default_doc=edd)
        src = ast.unparse(ast.fix_missing_locations(node)) + "\n"
        ast.parse(src)
        return src
    except Exception:  # noqa  the emitters failing on a generated interface is C03/C04's clause
        return None


def _splice_body(src, body_src):
    """the one definition `src` (column 0, one-line header) with everything after its docstring replaced by body_src"""
    fd = ast.parse(src).body[0]
    lines = src.rstrip("\n").split("\n")
    keep = fd.body[0].end_lineno if _is_docstring_stmt(fd.body[0]) else fd.body[0].lineno - 1
    return "\n".join(lines[:keep] + [_indent(body_src)]) + "\n"


# ------------------------------------------------------------------ generation: functions / methods
def gen_function_src(rng):
    """(source of one def at column 0, tags, generator's own emit options or None)"""
    r = rng.random()
    if r < 0.30:
        import prop_C16                      # (lazily: prop_C16 registers this family)
        c = prop_C16.gen_src_case(rng)
        return c["src"], ["src:fromsrc"] + c["tags"], c["opts"]
    if r < 0.48:
        src, info = fam_parsesig.gen_def(rng, receiver_names=0.06, type_first=0.3, gn_defaults=0.3)
        return src, ["src:gen_def"] + [t for t in info["tags"] if t.startswith("doc:")], None
    if r < 0.70:
        src, info = fam_parsesig.gen_def(rng, receiver_names=0.06, type_first=0.3, gn_defaults=0.3)
        if not _valid(src):
            return None, [], None
        pn = list(info["sig_names"]) + ([info["kwarg"]] if info["kwarg"] else [])
        body = fam_emitast.gen_body_src(rng, pn, allow_opaque_params=rng.random() < 0.25, kind="function")
        return _splice_body(src, body), ["src:gen_def+body"] + [t for t in info["tags"] if t.startswith("doc:")], None
    if r < 0.85:
        mod = ast.parse(gen_module.gen_module(rng, depth=2, max_items=6))
        fds = [n for n in ast.walk(mod) if isinstance(n, ast.FunctionDef)]
        if not fds:
            return None, [], None
        fd = rng.choice(fds)
        tags = ["src:module", "decorated" if fd.decorator_list else "undecorated"]
        if rng.random() < 0.5:
            pn = [x.arg for x in fd.args.args + fd.args.kwonlyargs if x.arg not in ("self", "cls")]
            body = ast.parse(fam_emitast.gen_body_src(rng, pn, allow_opaque_params=rng.random() < 0.25)).body
            fd.body = (fd.body[:1] if _is_docstring_stmt(fd.body[0]) else []) + body
            tags.append("body:generated")
        return ast.unparse(ast.fix_missing_locations(fd)) + "\n", tags, None
    src = _emitted_src(rng, "function")
    return src, ["src:emitted"], None


def gen_function_case(rng):
    src, tags, o0 = gen_function_src(rng)
    if src is None or not _valid(src):
        return None
    fd = ast.parse(src).body[0]
    if not isinstance(fd, ast.FunctionDef):
        return None
    kind, name = _kind_of(fd), fd.name
    r = rng.random()
    e_name = name if r < 0.75 else None if r < 0.9 else "other_name"
    r = rng.random()
    e_type = kind if r < 0.7 else None if r < 0.87 else rng.choice([k for k in ("static", "self", "cls") if k != kind])
    r = rng.random()
    p_ft = None if r < 0.75 else kind if r < 0.88 else rng.choice(["static", "self"])
    r = rng.random()
    p_fn = None if r < 0.6 else name if r < 0.95 else "other"
    o = {"function_name": e_name, "function_type": e_type, "word_wrap": rng.random() < 0.5,
         "emit_default_doc": rng.random() < 0.5, "indent_level": rng.choice([0, 1, 2]),
         "emit_separating_tab": rng.random() < 0.5, "inline_types": rng.random() < 0.5,
         "emit_as_kwonlyargs": rng.random() < 0.5}
    if o0 is not None:
        for k in ("inline_types", "emit_as_kwonlyargs", "emit_default_doc", "word_wrap"):
            o[k] = o0[k]
    tags = tags + ["kind:" + kind,
                   "target:" + ("same" if (e_name or p_fn or name) == name and (e_type or p_ft or kind) == kind else "other")]
    return {"fam": NAME, "fn": "function",
            "args": {"src": src, "infer_type": rng.random() < 0.3, "p_word_wrap": rng.random() < 0.8, "p_ft": p_ft, "p_fn": p_fn,
                     "ordk": rng.choice(["sorted", "reversed", "rotated"]), "opts": o},
            "tags": tags}


# ------------------------------------------------------------------ generation: argparse functions
def _splice_argparse(rng, src):
    """generated body statements put between / after the interface statements of an argparse function"""
    fd = ast.parse(src).body[0]
    lines = src.rstrip("\n").split("\n")
    stmts = fd.body[1:] if _is_docstring_stmt(fd.body[0]) else list(fd.body)
    if not stmts:
        return src
    body = fam_emitast.gen_body_src(rng, ["argument_parser"], allow_opaque_params=rng.random() < 0.25, kind="argparse")
    new = _indent(body).split("\n")
    last = stmts[-1]
    ends_in_return = isinstance(ast.parse(body).body[-1], ast.Return)
    if isinstance(last, ast.Return) and (ends_in_return or rng.random() < 0.15):
        # the generated statements end the function (their own final return, or none at all)
        lines = lines[:last.lineno - 1] + new
    elif rng.random() < 0.6 and isinstance(last, ast.Return) and not ends_in_return:
        lines = lines[:last.lineno - 1] + new + lines[last.lineno - 1:]
    else:
        at = rng.choice(stmts).lineno - 1           # before one of the statements (also before the first)
        if ends_in_return:
            new = _indent("\n".join(l for l in body.split("\n")[:-1]) or "pass").split("\n")
        lines = lines[:at] + new + lines[at:]
    out = "\n".join(lines) + "\n"
    return out if _valid(out) else src


def gen_argparse_case(rng):
    r = rng.random()
    if r < 0.25:
        src, tags = fam_parseast.gen_argparse_src(rng)
        tags = ["src:handwritten"] + tags
    elif r < 0.60:
        src, tags = fam_parseast.gen_argparse_src(rng)
        if not _valid(src):
            return None
        src = _splice_argparse(rng, src)
        tags = ["src:handwritten+body"] + tags
    elif r < 0.72:
        src, tags = fam_parseast.gen_argparse_src(rng, malformed=True)
        if _valid(src) and rng.random() < 0.5:
            src = _splice_argparse(rng, src)
        tags = ["src:malformed"] + tags
    else:
        src, tags = _emitted_src(rng, "argparse"), ["src:emitted"]
    if src is None or not _valid(src):
        return None
    fd = ast.parse(src).body[0]
    if not isinstance(fd, ast.FunctionDef):
        return None
    name = fd.name
    p_fn = rng.choice([None, name, name, name, "other"])
    p_ft = rng.choice([None, None, None, "static", "self", ""])
    r = rng.random()
    e_name = name if r < 0.7 else None if r < 0.85 else rng.choice(["set_cli_args", "cli"])
    o = {"emit_default_doc": rng.random() < 0.5, "word_wrap": rng.random() < 0.5, "wrap_description": rng.random() < 0.5,
         "function_name": e_name, "function_type": rng.choice(["static", "static", "static", None])}
    return {"fam": NAME, "fn": "argparse", "args": {"src": src, "p_ft": p_ft, "p_fn": p_fn, "opts": o}, "tags": tags}


# ------------------------------------------------------------------ generation: classes
CLASS_PLAIN = ["print('side effect')", "pass", "assert True", "'a string statement'", "import os", "counter += 1",
               "if True:\n    z = 1", "for _i in range(2):\n    print(_i)", "del tmp_", "register(__name__)", "..."]
ATTR_ANNS = ["int", "str", "float", "bool", "Optional[int]", "List[str]", "Literal['a', 'b']", "Union[int, str]", "np.ndarray"]
ATTR_VALUES = ["5", "0", "-1", "2.5", "'mnist'", "None", "True", "(1, 2)", "[1]", "np.array([1])", "'a.b'"]
STR_VALUES = ["'mnist'", "'a.b'", "None", "'x'"]


def _attr_value(rng, ann):
    """a value for an attribute annotated `ann` (None: a plain assignment); mostly of a kind the converters accept (a number
    under a str-like annotation, an unannotated list / tuple make emit.class_ / parse.class_ raise: C03's clause, skipped)"""
    if rng.random() < 0.05:
        return rng.choice(ATTR_VALUES)
    if ann is None:
        return rng.choice([v for v in ATTR_VALUES if v[0] not in "(["])
    if "str" in ann or "Literal" in ann:
        return rng.choice(STR_VALUES + (["'a'", "'b'"] if "Literal" in ann else []))
    return rng.choice(ATTR_VALUES)


METHOD_NAMES = ["run", "train", "helper", "__init__", "__call__", "__call__", "step", "__repr__"]


def gen_method_src(rng, name, attrs):
    """a method (self / cls / static) with a docstring of some shape and a generated body that mentions the attributes"""
    kind = rng.choice(["self", "self", "self", "cls", "static"])
    pn = []
    for _ in range(rng.choice([0, 1, 1, 2])):
        n = rng.choice(attrs) if attrs and rng.random() < 0.3 else G.ident(rng)     # a parameter may shadow an attribute
        if n not in pn and n not in ("self", "cls"):
            pn.append(n)
    parts = ([] if kind == "static" else [kind]) + \
            [n + ("=%s" % rng.choice(ATTR_VALUES[:6]) if rng.random() < 0.4 else "") for n in pn]
    seen_default, fixed = False, []
    for p in parts:                     # a parameter without a default may not follow one with a default
        if "=" in p:
            seen_default = True
        elif seen_default and p not in ("self", "cls"):
            p += "=None"
        fixed.append(p)
    head = ("@staticmethod\n" if kind == "static" and rng.random() < 0.7 else "@classmethod\n" if kind == "cls" and rng.random() < 0.7
            else "") + "def %s(%s):" % (name, ", ".join(fixed))
    doc = rng.choice([None, '"""Summary line."""', '"""\n    Does things.\n\n    %s\n    """'
                      % "\n    ".join(":param %s: %s" % (n, G.clean_prose(rng)) for n in pn), '""""""', "''"])
    names = pn + list(attrs[:2])
    body = fam_emitast.gen_body_src(rng, names, allow_opaque_params=rng.random() < 0.3)
    if kind == "self" and attrs and rng.random() < 0.5:
        body = "tmp0 = self.%s\n" % rng.choice(attrs) + body
    return head + "\n" + ("" if doc is None else "    " + doc + "\n") + _indent(body)


def gen_class_with_body(rng, carry=None):
    """(source, tags, number of statements of the class body that are not attributes).
    A class whose body interleaves attributes (annotated and plain assignments) with what the class -> class conversion has
    to carry: methods (also an existing __call__), nested classes, plain statements.  carry=False: attributes only."""
    tags = []
    name = rng.choice(["C", "ConfigClass", "Model", "Config"])
    attrs = []
    for _ in range(rng.choice([0, 1, 2, 2, 3])):
        n = G.ident(rng)
        if n not in attrs:
            attrs.append(n)
    items = []
    for n in attrs:
        r = rng.random()
        if r < 0.75:
            ann = rng.choice(ATTR_ANNS)
            items.append(("attr", "%s: %s = %s" % (n, ann, _attr_value(rng, ann))))
        elif r < 0.9:
            items.append(("attr", "%s = %s" % (n, _attr_value(rng, None))))
        else:
            items.append(("attr", "%s: %s" % (n, rng.choice(ATTR_ANNS))))
    if carry is None:
        carry = rng.random() < 0.75
    extras = []
    if carry:
        used = set()
        for _ in range(rng.choice([1, 1, 2, 2, 3, 4])):
            r = rng.random()
            if r < 0.6:
                mn = rng.choice([x for x in METHOD_NAMES if x not in used] or ["extra_method"])
                used.add(mn)
                extras.append(("method:" + ("__call__" if mn == "__call__" else "other"), gen_method_src(rng, mn, attrs)))
            elif r < 0.78:
                inner = "class %s%s:\n" % (rng.choice(["Inner", "Meta", "K"]), rng.choice(["", "(object)"]))
                inner += rng.choice(["    k = 1\n    def m(self):\n        return self.k", "    pass",
                                     '    """Inner doc."""\n    ordering = [%s]' % (repr(attrs[0]) if attrs else "'x'"),
                                     "    %s = 1\n    z = %s" % ((attrs[0], attrs[0]) if attrs else ("q", "q"))])
                extras.append(("nested-class", inner))
            else:
                extras.append(("plain", rng.choice(CLASS_PLAIN)))
    # interleave: attributes keep their order, the extras land anywhere (mostly after the attributes)
    body = list(items)
    for e in extras:
        body.insert(len(body) if rng.random() < 0.6 else rng.randrange(len(body) + 1), e)
    tags += sorted({"carry:" + k for k, _ in extras}) or ["carry:nothing"]
    lines = ["class %s%s:" % (name, rng.choice(["(object)", "", "(Base)"]))]
    r = rng.random()
    if r < 0.8:
        doc = [rng.choice(["Config.", "Some settings\n    over two lines.", "Acquire from the official model zoo", ""]), ""]
        for n in attrs:
            if rng.random() < 0.85:
                doc.append(":cvar %s: %s" % (n, G.clean_prose(rng)))
        lines.append('    """\n    %s\n    """' % "\n    ".join(doc).rstrip())
        tags.append("doc")
    else:
        tags.append("doc:none")
    for _k, text in body:
        lines.append(_indent(text))
    if len(lines) == 1:
        lines.append("    pass")
        extras.append(("plain", "pass"))
    return "\n".join(lines) + "\n", tags, len(extras)


def gen_class_case(rng):
    index, as_ = 0, "stmt"
    r = rng.random()
    if r < 0.40:
        src, tags, _n = gen_class_with_body(rng)
        tags = ["src:with_body"] + tags
    elif r < 0.55:
        src, tags = fam_parseast.gen_class_src(rng, malformed=rng.random() < 0.3)
        tags = ["src:parseast"] + tags
    elif r < 0.70:
        src, tags = fam_parsesig.gen_class(rng, receiver_names=0.06, class_types=0.4, type_first=0.3, gn_defaults=0.3)
        tags = ["src:parsesig"] + [t for t in tags if t in ("init",)]
    elif r < 0.82:
        mod = ast.parse(gen_module.gen_module(rng, depth=2, max_items=6))
        cds = [n for n in ast.walk(mod) if isinstance(n, ast.ClassDef)]
        if not cds:
            return None
        src, tags = ast.unparse(ast.fix_missing_locations(rng.choice(cds))) + "\n", ["src:module"]
    else:
        src, tags = _emitted_src(rng, "class"), ["src:emitted"]
    if src is None or not _valid(src):
        return None
    cd = ast.parse(src).body[0]
    if not isinstance(cd, ast.ClassDef):
        return None
    class_name = None
    if rng.random() < 0.15:
        class_name = rng.choice([cd.name, cd.name, "Nope"])
    if rng.random() < 0.12:
        # handed over as a module: the class is looked up in it
        as_ = "module"
        if rng.random() < 0.5:
            src = "import os\n\nX = 1\n\n" + src
    o = {"emit_call": rng.random() < 0.6, "class_name": rng.choice([cd.name, cd.name, "C", "ConfigClass"]),
         "word_wrap": rng.random() < 0.5, "emit_default_doc": rng.random() < 0.5}
    if rng.random() < 0.15:
        o["class_bases"] = rng.choice([["object"], ["Base", "Mixin"], []])
    if rng.random() < 0.15:
        o["decorator_list"] = rng.choice([["dataclass"], [], ["a", "b"]])
    tags = tags + ["emit_call=%s" % o["emit_call"], "as:" + as_]
    return {"fam": NAME, "fn": "class",
            "args": {"src": src, "as": as_, "index": index, "class_name": class_name, "infer_type": rng.random() < 0.2,
                     "p_word_wrap": rng.random() < 0.7, "opts": o},
            "tags": tags}


# ------------------------------------------------------------------ gen
def gen(rng, n, tier="quick"):
    cases = []
    tries = 0
    while len(cases) < n and tries < 20 * n + 100:
        tries += 1
        r = rng.random()
        c = gen_function_case(rng) if r < 0.45 else gen_argparse_case(rng) if r < 0.70 else gen_class_case(rng)
        if c is None:
            GEN_DROPS["no-source"] += 1
            continue
        try:
            _prepare(c)
        except Exception as e:  # noqa  the docstring parser rejects the text / a value the wire cannot carry: other layers
            GEN_DROPS["%s:%s" % (c["fn"], type(e).__name__)] += 1
            continue
        cases.append(c)
    return cases


# ------------------------------------------------------------------ running
_CACHE = {}


def _table(before, rec):
    strings = set()
    fam_emitast._strings_of_ir(before, strings)
    for snap in rec.irs:
        fam_emitast._strings_of_ir(snap, strings)
    return fam_emitast.parse_table(strings)


def _emit_and_observe(fn, ir, o):
    """run the real emitter on the IR the real parser produced -> (pt, recorder, observation wire)"""
    before = copy.deepcopy(ir)
    res, rec = fam_emitast.call_emitter(fn, ir, o)
    pt = _table(before, rec)
    if rec.node is not None:
        try:
            out = dumps([Sym("ok"), astwire.enc_stmt(rec.node)])
        except Exception as e:  # noqa  the artefact is outside what the wire can carry
            out = dumps(Sym("unencodable-%s" % type(e).__name__))
    else:
        out = dumps(res)
    return pt, rec, out


def real_function(a, extra=None):
    """-> (request, observation); extra (a dict) receives the classifier / guard requests of the same point"""
    m = impl()
    o = a["opts"]
    fd = ast.parse(a["src"]).body[a.get("index", 0)]
    d = fam_parsesig._doc_ir(fd, a["infer_type"])
    pi, pj = fam_parsesig._orders(a["ordk"], fd, d)
    try:
        ir = m.parse.function(copy.deepcopy(fd), infer_type=a["infer_type"], word_wrap=a["p_word_wrap"],
                              function_type=a["p_ft"], function_name=a["p_fn"])
    except Exception as e:  # noqa
        ir, out = None, dumps([Sym("err"), Sym(exc_kind(e))])
    if ir is None:
        pt, tds = [], UNMODELLED
    else:
        pt, rec, out = _emit_and_observe("function", ir, o)
        tds = rec.tds
    req = dumps([Sym("c16rt_function"), pi, pj, opt(d, irwire.enc_ir), astwire.enc_stmt(fd), a["infer_type"], a["p_word_wrap"],
                 opt(a["p_ft"]), opt(a["p_fn"]), opt(o["function_name"]), opt(o["function_type"]), o["inline_types"],
                 o["emit_as_kwonlyargs"], tds, pt])
    if extra is not None:
        common_ = [pt, opt(d, irwire.enc_ir), astwire.enc_stmt(fd), a["infer_type"], a["p_word_wrap"]]
        extra["class_req"] = dumps([Sym("c16rt_function_class")] + common_)
        extra["guard_req"] = dumps([Sym("c16rt_function_guard")] + common_ + [opt(a["p_ft"]), opt(a["p_fn"]), opt(o["function_name"]),
                                                                             opt(o["function_type"])])
    return req, out


def real_argparse(a, extra=None):
    m = impl()
    o = a["opts"]
    fd = ast.parse(a["src"]).body[a.get("index", 0)]
    with fam_parseast._Recorder("parse_docstring") as r:
        try:
            ir = m.parse.argparse_ast(copy.deepcopy(fd), function_type=a["p_ft"], function_name=a["p_fn"])
        except Exception as e:  # noqa
            ir, out = None, dumps([Sym("err"), Sym(exc_kind(e))])
    di = fam_parseast._enc_outcome_ir(r.rec if r.rec is not None else ("err", "Unmodelled"))
    if ir is None:
        pt, ds = [], UNMODELLED
    else:
        pt, rec, out = _emit_and_observe("argparse", ir, o)
        ds = rec.ds
    req = dumps([Sym("c16rt_argparse"), di, astwire.enc_stmt(fd), opt(a["p_ft"]), opt(a["p_fn"]), o["emit_default_doc"],
                 opt(o["function_name"]), opt(o["function_type"]), o["wrap_description"], o["word_wrap"], ds, pt])
    if extra is not None:
        extra["class_req"] = dumps([Sym("c16rt_argparse_class"), astwire.enc_stmt(fd)])
        extra["guard_req"] = dumps([Sym("c16rt_argparse_guard"), astwire.enc_stmt(fd), opt(a["p_ft"]), opt(a["p_fn"]),
                                    opt(o["function_name"]), opt(o["function_type"])])
    return req, out


def real_class(a, extra=None):
    m = impl()
    o = a["opts"]
    mod = ast.parse(a["src"])
    if a["as"] == "module":
        node, nodew = mod, [Sym("module"), astwire.enc_module(mod)]
    else:
        node = mod.body[a.get("index", 0)]
        nodew = [Sym("stmt"), astwire.enc_stmt(node)]
    with fam_parseast._Recorder("docstring") as r:
        try:
            ir = m.parse.class_(copy.deepcopy(node), class_name=a["class_name"], infer_type=a["infer_type"],
                                word_wrap=a["p_word_wrap"])
        except Exception as e:  # noqa
            ir, out = None, dumps([Sym("err"), Sym(exc_kind(e))])
    di = opt(r.rec, fam_parseast._enc_outcome_ir)
    if ir is None:
        pt, tds = [], UNMODELLED
    else:
        pt, rec, out = _emit_and_observe("class", ir, o)
        tds = rec.tds
    req = dumps([Sym("c16rt_class"), di, nodew, opt(a["class_name"]), a["infer_type"], a["p_word_wrap"], o["emit_call"],
                 o["class_name"], list(o.get("class_bases", ["object"])), list(o.get("decorator_list") or []), o["word_wrap"],
                 tds, pt])
    if extra is not None and a["as"] != "module":
        extra["class_req"] = dumps([Sym("c16rt_class_class"), astwire.enc_stmt(node), o["emit_call"]])
        extra["guard_req"] = dumps([Sym("c16rt_class_guard"), astwire.enc_stmt(node), o["emit_call"]])
    return req, out


def _prepare(case):
    key = id(case)
    hit = _CACHE.get(key)
    if hit is not None and hit[0] is case:
        return hit[1], hit[2]
    fn = case["fn"]
    f = {"function": real_function, "argparse": real_argparse, "class": real_class}[fn]
    req, out = f(copy.deepcopy(case["args"]))
    if len(_CACHE) > 200000:
        _CACHE.clear()
    _CACHE[key] = (case, req, out)
    return req, out


def request(case):
    try:
        return _prepare(case)[0]
    except Exception as e:  # noqa  (cases from gen were prepared already; this is a corpus case the harness cannot run)
        return dumps([Sym("c16rt_harness_exception"), type(e).__name__])


def run_impl(case):
    return _prepare(case)[1]


def nontrivial(case):
    """something is carried: the definition has at least one statement after its docstring that is not an attribute"""
    try:
        node = ast.parse(case["args"]["src"])
        node = next(n for n in node.body if isinstance(n, (ast.FunctionDef, ast.ClassDef)))
    except Exception:  # noqa
        return False
    body = node.body[1:] if _is_docstring_stmt(node.body[0]) else node.body
    if case["fn"] == "class":
        body = [s for s in body if not isinstance(s, (ast.Assign, ast.AnnAssign))]
    return bool(body)


if __name__ == "__main__":
    import random
    import corr
    seed = int(sys.argv[2]) if len(sys.argv) > 2 else 1
    cs = gen(random.Random(seed), int(sys.argv[1]) if len(sys.argv) > 1 else 500)
    res = corr.run_family(sys.modules[__name__], cs)
    print({k: v for k, v in res.items() if k not in ("mismatches", "histogram")})
    print("mismatches:", len(res["mismatches"]), " by fn:", dict(collections.Counter(c["fn"] for c in cs)))
    print("gen drops:", dict(GEN_DROPS))
    print({k: v for k, v in sorted(res["histogram"].items()) if k.startswith("unmodelled") or ":src:" in k or ":carry:" in k
           or ":target:" in k})
    for mm in res["mismatches"][:int(os.environ.get("SHOW", "6"))]:
        print("-" * 70)
        print(json.dumps(mm["case"], indent=0)[:1800])
        print("MODEL", fam_parseast._pretty(mm["model"])[:1500])
        print("IMPL ", fam_parseast._pretty(mm["impl"])[:1500])
