"""Generator of Python modules for the location / sync / sync_properties families, and an independent
resolver of dotted locations written directly over `ast` (the judge named by property C15)."""
import ast

NAME_POOL = ["f", "g", "helper", "method", "run", "train", "C", "D", "Config", "Model", "a", "b", "x", "y",
             "value", "name", "K", "dataset_name", "batch_size", "lr", "opt", "h"]
FUNC_NAMES = ["f", "g", "helper", "method", "run", "train", "h", "set_cli_args", "__init__", "__call__"]
CLASS_NAMES = ["C", "D", "Config", "Model", "Inner", "ConfigClass"]
ARG_NAMES = ["a", "b", "x", "y", "value", "name", "K", "dataset_name", "batch_size", "lr", "opt"]
ANNS = ["int", "str", "float", "bool", "Optional[int]", "List[str]", "Literal['a', 'b']", "Union[int, str]",
        "Dict[str, int]", "np.ndarray"]
DEFAULTS = ["5", "0", "-1", "2.5", "'mnist'", "None", "True", "(1, 2)", "[1]", "{}", "np.array([1])", "'a.b'"]
IMPORTS = ["import os", "import sys", "from typing import Optional, List", "from typing import Literal, Union, Dict",
           "import numpy as np", "from collections import OrderedDict", "from __future__ import annotations"]
# modules an import that binds / mentions one of the generator's own names is taken from (shadow_imports stratum)
IMPORT_SOURCES = ["os", "lib", "pkg.config", ".defaults", "..base"]


def _pick_unique(rng, pool, used):
    cands = [n for n in pool if n not in used]
    if not cands:
        return None
    n = rng.choice(cands)
    used.add(n)
    return n


def gen_args(rng, method_kind=None):
    """returns source of an argument list"""
    used = set()
    parts = []
    if method_kind in ("self", "cls"):
        parts.append(method_kind)
        used.add(method_kind)
    npos = rng.choice([0, 1, 1, 2, 3])
    pos = []
    for _ in range(npos):
        n = _pick_unique(rng, ARG_NAMES, used)
        if n:
            pos.append(n)
    ndef = rng.randint(0, len(pos))
    for i, n in enumerate(pos):
        s = n
        if rng.random() < 0.5:
            s += ": " + rng.choice(ANNS)
        if i >= len(pos) - ndef:
            s += (" = " if ":" in s else "=") + rng.choice(DEFAULTS)
        parts.append(s)
    if rng.random() < 0.3:
        parts.append("*")
        nk = 0
        for _ in range(rng.choice([1, 2])):
            n = _pick_unique(rng, ARG_NAMES, used)
            if not n:
                continue
            nk += 1
            s = n
            if rng.random() < 0.5:
                s += ": " + rng.choice(ANNS)
            if rng.random() < 0.6:
                s += (" = " if ":" in s else "=") + rng.choice(DEFAULTS)
            parts.append(s)
        if nk == 0:
            parts.pop()
    if rng.random() < 0.2:
        parts.append("**kwargs")
    return ", ".join(parts)


def gen_body_simple(rng, ind):
    lines = []
    if rng.random() < 0.4:
        lines.append(ind + '"""%s"""' % rng.choice(["Doc.", "Does things.", "Helper"]))
    for _ in range(rng.randint(0, 2)):
        lines.append(ind + rng.choice(["x = 1", "print('hi')", "y = x if False else 2", "pass", "z: int = 3"]))
    lines.append(ind + rng.choice(["pass", "return None", "return 5", "return a if False else 0"]))
    return lines


def gen_shadow_import(rng):
    """an import statement that mentions names of the generator's own pools: the imported name, the module or the
    `as` name is spelled like a location that may be defined elsewhere in the module (imports bind names too, yet are
    not addressable members)"""
    names = []
    for _ in range(rng.choice([1, 1, 2, 3])):
        n = rng.choice(NAME_POOL)
        if n not in names:
            names.append(n)
    r = rng.random()
    if r < 0.6:
        parts = [n if rng.random() < 0.7 else "%s as %s" % (n, rng.choice(NAME_POOL + ["_alias"])) for n in names]
        return "from %s import %s" % (rng.choice(IMPORT_SOURCES), ", ".join(parts))
    if r < 0.8:
        return "import " + ", ".join(names)
    if r < 0.9:
        return "import %s.%s" % (names[0], rng.choice(NAME_POOL))
    return "import %s as %s" % (rng.choice(["os", "lib.mod"]), names[0])


# ---- multi-line text constants (text_blocks stratum): usage banners, templates, tables kept in triple-quoted literals
TEXT_NAMES = ["BANNER", "USAGE", "TEMPLATE", "HELP_TEXT", "QUERY", "TABLE", "banner", "usage"]
TEXT_LINES = ["Usage:", "  run --fast", "\tcolumn\tvalue", "SELECT *", "    FROM t", "end.", "* item", "trailing   ",
              "a\tb", "      deep", " one", "x = 1", "def not_code():", "# not a comment", "{name}", "%s items"]
TEXT_BLANKS = ["", "", "    ", "  ", " ", "\t", " \t", "\t\t ", "        "]


def gen_text_literal(rng, ind=""):
    """source of a triple-quoted string literal spanning 2..6 lines: text lines start in whatever column the text says
    (odd indentation, tabs), some lines are empty, some consist of blanks / tabs only, some end in blanks; the closing
    quotes follow the text, stand on a line of their own at column 0 or at the statement's indentation (the value then
    ends in a blanks-only segment without newline)"""
    q = rng.choice(['"""', '"""', "'''"])
    n = rng.randint(1, 5)
    body = []
    for i in range(n):
        body.append(rng.choice(TEXT_BLANKS) if rng.random() < 0.4 else rng.choice(TEXT_LINES))
    if not any(ln.strip() for ln in body):
        body[rng.randrange(len(body))] = rng.choice(TEXT_LINES)
    first = rng.choice(["", "", rng.choice(TEXT_LINES), "   "])
    close = rng.choice(["\n", "\n" + ind, "\n" + ind + "    ", ""])
    if close == "" and not body[-1].strip():
        close = "\n"
    return q + first + "\n" + "\n".join(body) + close + q


def gen_text_stmt(rng, ind, used):
    """a statement (source lines) holding a multi-line text constant that is not a docstring: an assignment (plain or
    annotated: an addressable member), a call with the text as argument, a constant in a larger expression"""
    lit = gen_text_literal(rng, ind)
    r = rng.random()
    nm = _pick_unique(rng, TEXT_NAMES, used) if r < 0.75 else None
    if nm is None:
        form = rng.choice(["print(%s)", "register(%s, 1)", "_ = (%s).strip()", "assert %s"])
        return (ind + form % lit).split("\n")
    if r < 0.4:
        return (ind + "%s = %s" % (nm, lit)).split("\n")
    if r < 0.6:
        return (ind + "%s: str = %s" % (nm, lit)).split("\n")
    if r < 0.68:
        return (ind + "%s = [%s, 'x']" % (nm, lit)).split("\n")
    return (ind + "%s = %s %% 3" % (nm, lit)).split("\n")


def gen_scope(rng, depth, ind, in_class, max_items, shadow_imports=0.0, text_blocks=0.0):
    """lines of a module or class body; names unique within this scope.
    shadow_imports: probability, per item, of an import (in class bodies too) that mentions the generator's own names
    text_blocks: probability, per item, of a statement holding a multi-line text constant (gen_text_stmt), and of one more
    such statement inside a function body"""
    used = set()
    lines = []
    n = rng.randint(1, max_items)
    for _ in range(n):
        if shadow_imports and rng.random() < shadow_imports:
            lines.append(ind + gen_shadow_import(rng))
            continue
        if text_blocks and rng.random() < text_blocks:
            lines.extend(gen_text_stmt(rng, ind, used))
            continue
        r = rng.random()
        if r < 0.12 and not in_class:
            lines.append(ind + rng.choice(IMPORTS))
        elif r < 0.27:
            nm = _pick_unique(rng, NAME_POOL, used)
            if nm:
                lines.append(ind + "%s = %s" % (nm, rng.choice(DEFAULTS)))
        elif r < 0.42:
            nm = _pick_unique(rng, NAME_POOL, used)
            if nm:
                lines.append(ind + "%s: %s = %s" % (nm, rng.choice(ANNS), rng.choice(DEFAULTS)))
        elif r < 0.72:
            nm = _pick_unique(rng, FUNC_NAMES, used)
            if nm:
                kind = rng.choice(["self", "self", "cls", None]) if in_class else None
                if kind == "cls":
                    lines.append(ind + "@classmethod")
                elif kind is None and in_class:
                    lines.append(ind + "@staticmethod")
                lines.append(ind + "def %s(%s):" % (nm, gen_args(rng, kind)))
                if depth > 0 and rng.random() < 0.25:
                    lines.extend(gen_scope_nested_in_func(rng, depth - 1, ind + "    "))
                body = gen_body_simple(rng, ind + "    ")
                if text_blocks and rng.random() < text_blocks:
                    body[-1:-1] = gen_text_stmt(rng, ind + "    ", set())      # before the final return / pass
                lines.extend(body)
        elif r < 0.9 and depth > 0:
            nm = _pick_unique(rng, CLASS_NAMES, used)
            if nm:
                lines.append(ind + "class %s(%s):" % (nm, rng.choice(["object", "", "Base"])) if rng.random() < 0.7
                             else ind + "class %s:" % nm)
                if rng.random() < 0.5:
                    lines.append(ind + '    """%s"""' % rng.choice(["Class doc.", "Config.\n" + ind + "    :cvar a: A"]))
                lines.extend(gen_scope(rng, depth - 1, ind + "    ", True, 4, shadow_imports, text_blocks))
        elif r < 0.95 and not in_class:
            lines.append(ind + "if __name__ == '__main__':")
            lines.append(ind + "    " + rng.choice(["print(1)", "main()", "x = 2"]))
        else:
            lines.append(ind + rng.choice(["print('side effect')", "assert True", "del_me = None"]))
    if not lines:
        lines.append(ind + "pass")
    return lines


def gen_scope_nested_in_func(rng, depth, ind):
    lines = []
    nm = rng.choice(FUNC_NAMES[:6])
    lines.append(ind + "def %s(%s):" % (nm, gen_args(rng)))
    lines.extend(gen_body_simple(rng, ind + "    "))
    return lines


def gen_module(rng, depth=2, max_items=6, trailing_newline=None, shadow_imports=0.0, text_blocks=0.0):
    """shadow_imports, text_blocks (default 0: the stream of existing callers is unchanged): see gen_scope"""
    while True:
        lines = []
        if rng.random() < 0.3:
            lines.append('"""Module doc."""')
        lines.extend(gen_scope(rng, depth, "", False, max_items, shadow_imports, text_blocks))
        src = "\n".join(lines)
        src = src.replace("class C():", "class C:").replace("():", ":") if False else src
        src = src.replace("(): ", ": ")
        if trailing_newline is None:
            trailing_newline = rng.random() < 0.8
        if trailing_newline:
            src += "\n"
        try:
            ast.parse(src)
        except SyntaxError:
            continue
        return src


# ---------------------------------------------------------------- independent resolver over ast
def _members(node):
    """(name, node) of the directly addressable members of a Module / ClassDef, in order"""
    out = []
    for s in node.body:
        if isinstance(s, (ast.FunctionDef, ast.AsyncFunctionDef, ast.ClassDef)):
            out.append((s.name, s))
        elif isinstance(s, ast.AnnAssign) and isinstance(s.target, ast.Name):
            out.append((s.target.id, s))
        elif isinstance(s, ast.Assign):
            for t in s.targets:
                if isinstance(t, ast.Name):
                    out.append((t.id, s))
    return out


def _func_args(fn):
    a = fn.args
    out = [(x.arg, x) for x in getattr(a, "posonlyargs", [])] + [(x.arg, x) for x in a.args] + \
          [(x.arg, x) for x in a.kwonlyargs]
    return out


def resolve(path, tree):
    """node whose qualified path is exactly `path` (list of str), else None"""
    node = tree
    for i, seg in enumerate(path):
        last = i == len(path) - 1
        if isinstance(node, (ast.Module, ast.ClassDef)):
            nxt = next((n for nm, n in _members(node) if nm == seg), None)
        elif isinstance(node, (ast.FunctionDef, ast.AsyncFunctionDef)):
            nxt = next((n for nm, n in _func_args(node) if nm == seg), None) if last else None
        else:
            nxt = None
        if nxt is None:
            return None
        node = nxt
    return node if path else tree


def all_locations(tree):
    """every qualified path that exists, with the node"""
    out = []

    def rec(node, prefix):
        if isinstance(node, (ast.Module, ast.ClassDef)):
            seen = set()
            for nm, n in _members(node):
                if nm in seen:
                    continue
                seen.add(nm)
                out.append((prefix + [nm], n))
                rec(n, prefix + [nm])
        elif isinstance(node, (ast.FunctionDef, ast.AsyncFunctionDef)):
            for nm, n in _func_args(node):
                out.append((prefix + [nm], n))
    rec(tree, [])
    return out
