"""Generator of Python modules for the location / sync / sync_properties families, and an independent
resolver of dotted locations written directly over `ast` (the judge named by property C15)."""
import ast

NAME_POOL = ["f", "g", "helper", "method", "run", "train", "C", "D", "Config", "Model", "a", "b", "x", "y",
             "value", "name", "K", "dataset_name", "batch_size", "lr", "opt", "h"]
FUNC_NAMES = ["f", "g", "helper", "method", "run", "train", "h", "set_cli_args", "__init__", "__call__"]
CLASS_NAMES = ["C", "D", "Config", "Model", "Inner", "ConfigClass"]
ARG_NAMES = ["a", "b", "x", "y", "value", "name", "K", "dataset_name", "batch_size", "lr", "opt"]
ANNS = ["int", "str", "float", "bool", "Optional[int]", "List[str]", "Literal['a', 'b']", "Union[int, str]",
        "Dict[str, int]", "np.ndarray"]
DEFAULTS = ["5", "0", "-1", "2.5", "'mnist'", "None", "True", "(1, 2)", "[1]", "{}", "np.array([1])", "'a.b'"]
IMPORTS = ["import os", "import sys", "from typing import Optional, List", "from typing import Literal, Union, Dict",
           "import numpy as np", "from collections import OrderedDict", "from __future__ import annotations"]
# modules an import that binds / mentions one of the generator's own names is taken from (shadow_imports stratum)
IMPORT_SOURCES = ["os", "lib", "pkg.config", ".defaults", "..base"]


def _pick_unique(rng, pool, used):
    cands = [n for n in pool if n not in used]
    if not cands:
        return None
    n = rng.choice(cands)
    used.add(n)
    return n


def gen_args(rng, method_kind=None):
    """returns source of an argument list"""
    used = set()
    parts = []
    if method_kind in ("self", "cls"):
        parts.append(method_kind)
        used.add(method_kind)
    npos = rng.choice([0, 1, 1, 2, 3])
    pos = []
    for _ in range(npos):
        n = _pick_unique(rng, ARG_NAMES, used)
        if n:
            pos.append(n)
    ndef = rng.randint(0, len(pos))
    for i, n in enumerate(pos):
        s = n
        if rng.random() < 0.5:
            s += ": " + rng.choice(ANNS)
        if i >= len(pos) - ndef:
            s += (" = " if ":" in s else "=") + rng.choice(DEFAULTS)
        parts.append(s)
    if rng.random() < 0.3:
        parts.append("*")
        nk = 0
        for _ in range(rng.choice([1, 2])):
            n = _pick_unique(rng, ARG_NAMES, used)
            if not n:
                continue
            nk += 1
            s = n
            if rng.random() < 0.5:
                s += ": " + rng.choice(ANNS)
            if rng.random() < 0.6:
                s += (" = " if ":" in s else "=") + rng.choice(DEFAULTS)
            parts.append(s)
        if nk == 0:
            parts.pop()
    if rng.random() < 0.2:
        parts.append("**kwargs")
    return ", ".join(parts)


def gen_body_simple(rng, ind):
    lines = []
    if rng.random() < 0.4:
        lines.append(ind + '"""%s"""' % rng.choice(["Doc.", "Does things.", "Helper"]))
    for _ in range(rng.randint(0, 2)):
        lines.append(ind + rng.choice(["x = 1", "print('hi')", "y = x if False else 2", "pass", "z: int = 3"]))
    lines.append(ind + rng.choice(["pass", "return None", "return 5", "return a if False else 0"]))
    return lines


def gen_shadow_import(rng):
    """an import statement that mentions names of the generator's own pools: the imported name, the module or the
    `as` name is spelled like a location that may be defined elsewhere in the module (imports bind names too, yet are
    not addressable members)"""
    names = []
    for _ in range(rng.choice([1, 1, 2, 3])):
        n = rng.choice(NAME_POOL)
        if n not in names:
            names.append(n)
    r = rng.random()
    if r < 0.6:
        parts = [n if rng.random() < 0.7 else "%s as %s" % (n, rng.choice(NAME_POOL + ["_alias"])) for n in names]
        return "from %s import %s" % (rng.choice(IMPORT_SOURCES), ", ".join(parts))
    if r < 0.8:
        return "import " + ", ".join(names)
    if r < 0.9:
        return "import %s.%s" % (names[0], rng.choice(NAME_POOL))
    return "import %s as %s" % (rng.choice(["os", "lib.mod"]), names[0])


def gen_scope(rng, depth, ind, in_class, max_items, shadow_imports=0.0):
    """lines of a module or class body; names unique within this scope.
    shadow_imports: probability, per item, of an import (in class bodies too) that mentions the generator's own names"""
    used = set()
    lines = []
    n = rng.randint(1, max_items)
    for _ in range(n):
        if shadow_imports and rng.random() < shadow_imports:
            lines.append(ind + gen_shadow_import(rng))
            continue
        r = rng.random()
        if r < 0.12 and not in_class:
            lines.append(ind + rng.choice(IMPORTS))
        elif r < 0.27:
            nm = _pick_unique(rng, NAME_POOL, used)
            if nm:
                lines.append(ind + "%s = %s" % (nm, rng.choice(DEFAULTS)))
        elif r < 0.42:
            nm = _pick_unique(rng, NAME_POOL, used)
            if nm:
                lines.append(ind + "%s: %s = %s" % (nm, rng.choice(ANNS), rng.choice(DEFAULTS)))
        elif r < 0.72:
            nm = _pick_unique(rng, FUNC_NAMES, used)
            if nm:
                kind = rng.choice(["self", "self", "cls", None]) if in_class else None
                if kind == "cls":
                    lines.append(ind + "@classmethod")
                elif kind is None and in_class:
                    lines.append(ind + "@staticmethod")
                lines.append(ind + "def %s(%s):" % (nm, gen_args(rng, kind)))
                if depth > 0 and rng.random() < 0.25:
                    lines.extend(gen_scope_nested_in_func(rng, depth - 1, ind + "    "))
                lines.extend(gen_body_simple(rng, ind + "    "))
        elif r < 0.9 and depth > 0:
            nm = _pick_unique(rng, CLASS_NAMES, used)
            if nm:
                lines.append(ind + "class %s(%s):" % (nm, rng.choice(["object", "", "Base"])) if rng.random() < 0.7
                             else ind + "class %s:" % nm)
                if rng.random() < 0.5:
                    lines.append(ind + '    """%s"""' % rng.choice(["Class doc.", "Config.\n" + ind + "    :cvar a: A"]))
                lines.extend(gen_scope(rng, depth - 1, ind + "    ", True, 4, shadow_imports))
        elif r < 0.95 and not in_class:
            lines.append(ind + "if __name__ == '__main__':")
            lines.append(ind + "    " + rng.choice(["print(1)", "main()", "x = 2"]))
        else:
            lines.append(ind + rng.choice(["print('side effect')", "assert True", "del_me = None"]))
    if not lines:
        lines.append(ind + "pass")
    return lines


def gen_scope_nested_in_func(rng, depth, ind):
    lines = []
    nm = rng.choice(FUNC_NAMES[:6])
    lines.append(ind + "def %s(%s):" % (nm, gen_args(rng)))
    lines.extend(gen_body_simple(rng, ind + "    "))
    return lines


def gen_module(rng, depth=2, max_items=6, trailing_newline=None, shadow_imports=0.0):
    """shadow_imports (default 0: the stream of existing callers is unchanged): see gen_scope"""
    while True:
        lines = []
        if rng.random() < 0.3:
            lines.append('"""Module doc."""')
        lines.extend(gen_scope(rng, depth, "", False, max_items, shadow_imports))
        src = "\n".join(lines)
        src = src.replace("class C():", "class C:").replace("():", ":") if False else src
        src = src.replace("(): ", ": ")
        if trailing_newline is None:
            trailing_newline = rng.random() < 0.8
        if trailing_newline:
            src += "\n"
        try:
            ast.parse(src)
        except SyntaxError:
            continue
        return src


# ---------------------------------------------------------------- independent resolver over ast
def _members(node):
    """(name, node) of the directly addressable members of a Module / ClassDef, in order"""
    out = []
    for s in node.body:
        if isinstance(s, (ast.FunctionDef, ast.AsyncFunctionDef, ast.ClassDef)):
            out.append((s.name, s))
        elif isinstance(s, ast.AnnAssign) and isinstance(s.target, ast.Name):
            out.append((s.target.id, s))
        elif isinstance(s, ast.Assign):
            for t in s.targets:
                if isinstance(t, ast.Name):
                    out.append((t.id, s))
    return out


def _func_args(fn):
    a = fn.args
    out = [(x.arg, x) for x in getattr(a, "posonlyargs", [])] + [(x.arg, x) for x in a.args] + \
          [(x.arg, x) for x in a.kwonlyargs]
    return out


def resolve(path, tree):
    """node whose qualified path is exactly `path` (list of str), else None"""
    node = tree
    for i, seg in enumerate(path):
        last = i == len(path) - 1
        if isinstance(node, (ast.Module, ast.ClassDef)):
            nxt = next((n for nm, n in _members(node) if nm == seg), None)
        elif isinstance(node, (ast.FunctionDef, ast.AsyncFunctionDef)):
            nxt = next((n for nm, n in _func_args(node) if nm == seg), None) if last else None
        else:
            nxt = None
        if nxt is None:
            return None
        node = nxt
    return node if path else tree


def all_locations(tree):
    """every qualified path that exists, with the node"""
    out = []

    def rec(node, prefix):
        if isinstance(node, (ast.Module, ast.ClassDef)):
            seen = set()
            for nm, n in _members(node):
                if nm in seen:
                    continue
                seen.add(nm)
                out.append((prefix + [nm], n))
                rec(n, prefix + [nm])
        elif isinstance(node, (ast.FunctionDef, ast.AsyncFunctionDef)):
            for nm, n in _func_args(node):
                out.append((prefix + [nm], n))
    rec(tree, [])
    return out
