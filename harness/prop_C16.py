"""C16 - implementation bodies are carried through conversions verbatim.

Oracle on the implementation: generated bodies attached to generated interfaces;
  function : emit.function(ir + body) -> source -> parse.function -> emit.function (same name, type) and the
             body statements compared by ast.dump (emit level: against the carried body; round trip: against the
             body of the function that was parsed);
  argparse : same with emit.argparse_function / parse.argparse_ast;
  class    : emit.class_(ir + body, emit_call=True): the body of __call__ compared with an independent,
             scope-aware re-homing of the body (exactly the references to parameters become self.<name>).
  fromsrc  : a function / method written as SOURCE TEXT (signature, a docstring of any shape - absent, ordinary, empty,
             blank, raw/concatenated/parenthesised literal, or a leading expression that is not a docstring - then a
             generated body) -> parse.function -> emit.function (same name, type) and -> emit.class_(emit_call=True);
             the statements after the docstring (judged independently: first statement is an `Expr` of a `str`
             constant) must come back exactly, resp. as their scope-aware re-homing.
  classrt  : a class written as SOURCE TEXT whose body interleaves attributes with what has to be carried - methods (also an
             existing `__call__`), nested classes, plain statements - -> parse.class_ -> emit.class_ (same name, emit_call
             on / off): the statements that are not attributes must come back as members of the class body, identical, in
             order, none dropped; a class with nothing to carry must come back without any such statement.
Each failure is classified by the extracted Coq functions of coq/model/C16Spec.v (function / argparse / __call__ sites) and
of coq/model/C16RoundTrip.v (class -> class: c16rt_class_class).
Second opinion: every function / argparse round-trip point is also classified by the composed round-trip classifiers
c16rt_function_class / c16rt_argparse_class (which derive the generated return / the extra statements from the MODEL of the
parser instead of taking them from the run); a disagreement between the two classifiers is recorded in the histogram
(`second-opinion:DISAGREE:...`) and in the result key `classifier_second_opinion`; it does not fail the check."""
import ast
import collections
import copy
from collections import OrderedDict

from common import Sym, dumps, loads, opt, impl, run_model, unhx, canon
import astwire
import gen_ir
import fam_emitast

ID = "C16"
COQ_PROP = "C16"
import fam_parsesig  # noqa: E402
import fam_parseast  # noqa: E402
import fam_c16rt  # noqa: E402

# bodies are carried by parse (function / argparse / class parsers) and by the emitters; c16rt: the composed round trip
# (real parse.* then real emit.* against the parser model followed by the emitter model, coq/model/C16RoundTrip.v)
FAMILIES = [(fam_emitast, 3000, 40000), (fam_parsesig, 1500, 15000), (fam_parseast, 1500, 15000),
            (fam_c16rt, 1500, 15000)]
TECHNIQUE = ("Coq proof (list lemmas over the three splice sites, RewriteName = scoped substitution by induction over "
             "statement/expression trees; unbounded in body length and depth) + differential correspondence of "
             "EmitAst.v against emit.py/ast_utils.py/emitter_utils.py, and of the composed round trip C16RoundTrip.v "
             "(parser model then emitter model) against the real parse.* followed by the real emit.*")
TRUSTED = [
    "to_docstring / emit.docstring results are inputs of the EmitAst model (recorded from the compared call)",
    "ast.parse on code strings outside TyExpr's fragment is an input table (recorded)",
    "opaque statements/expressions (If/For/BinOp/comprehensions...) are carried by canonical ast.unparse text; a body whose "
    "opaque text mentions a parameter name is outside the model (class call-unmodelled)",
    "the parse side of the round trip (parse.function, parse.argparse_ast, parse.class_) is the ParseSig / ParseAst model; "
    "the composition with the emitter model is tied to the code by the family c16rt (docstring-layer values recorded from "
    "the compared run)",
]


# ------------------------------------------------------------------ independent judge for the __call__ re-homing
def _bound_in(stmts):
    """names a statement list binds in its own scope (not descending into nested scopes)"""
    out = set()
    decl = set()

    def tgt(t):
        if isinstance(t, ast.Name):
            out.add(t.id)
        elif isinstance(t, (ast.Tuple, ast.List)):
            for e in t.elts:
                tgt(e)
        elif isinstance(t, ast.Starred):
            tgt(t.value)

    def walk_expr(e):
        for n in ast.walk(e):
            if isinstance(n, ast.NamedExpr):
                tgt(n.target)

    def st(s):
        if isinstance(s, (ast.FunctionDef, ast.AsyncFunctionDef, ast.ClassDef)):
            out.add(s.name)
            return
        if isinstance(s, (ast.Assign,)):
            for t in s.targets:
                tgt(t)
        elif isinstance(s, (ast.AnnAssign, ast.AugAssign)):
            tgt(s.target)
        elif isinstance(s, (ast.For, ast.AsyncFor)):
            tgt(s.target)
        elif isinstance(s, (ast.With, ast.AsyncWith)):
            for it in s.items:
                if it.optional_vars is not None:
                    tgt(it.optional_vars)
        elif isinstance(s, (ast.Import, ast.ImportFrom)):
            for a in s.names:
                out.add((a.asname or a.name).split(".")[0])
        elif isinstance(s, (ast.Global, ast.Nonlocal)):
            decl.update(s.names)
        for f in ("body", "orelse", "finalbody"):
            for c in getattr(s, f, []) or []:
                if isinstance(c, ast.stmt):
                    st(c)
        for h in getattr(s, "handlers", []) or []:
            if h.name:
                out.add(h.name)
            for c in h.body:
                st(c)
    for s in stmts:
        st(s)
    return out - decl


def _arg_names(a):
    return {x.arg for x in a.posonlyargs + a.args + a.kwonlyargs} | ({a.vararg.arg} if a.vararg else set()) | \
        ({a.kwarg.arg} if a.kwarg else set())


class Rehome(ast.NodeTransformer):
    """scope-aware: a Name is a reference to a parameter unless an enclosing nested scope binds that name"""

    def __init__(self, params):
        self.params = set(params)
        self.shadow = []

    def visit_Name(self, node):
        if node.id in self.params and not any(node.id in s for s in self.shadow):
            return ast.Attribute(ast.Name("self", ast.Load()), node.id, ast.Load())
        return node

    def _outer_parts_of_args(self, a):
        a.defaults = [self.visit(d) for d in a.defaults]
        a.kw_defaults = [None if d is None else self.visit(d) for d in a.kw_defaults]
        for x in a.posonlyargs + a.args + a.kwonlyargs + [y for y in (a.vararg, a.kwarg) if y]:
            if x.annotation is not None:
                x.annotation = self.visit(x.annotation)

    def _function(self, node):
        node.decorator_list = [self.visit(d) for d in node.decorator_list]
        self._outer_parts_of_args(node.args)
        if node.returns is not None:
            node.returns = self.visit(node.returns)
        self.shadow.append(_arg_names(node.args) | _bound_in(node.body))
        node.body = [self.visit(s) for s in node.body]
        self.shadow.pop()
        return node

    visit_FunctionDef = _function
    visit_AsyncFunctionDef = _function

    def visit_Lambda(self, node):
        self._outer_parts_of_args(node.args)
        self.shadow.append(_arg_names(node.args))
        node.body = self.visit(node.body)
        self.shadow.pop()
        return node

    def visit_ClassDef(self, node):
        node.decorator_list = [self.visit(d) for d in node.decorator_list]
        node.bases = [self.visit(d) for d in node.bases]
        for k in node.keywords:
            k.value = self.visit(k.value)
        cls_bound = _bound_in(node.body)
        new = []
        for s in node.body:
            if isinstance(s, (ast.FunctionDef, ast.AsyncFunctionDef)):
                new.append(self.visit(s))       # methods do not see the class scope
            else:
                self.shadow.append(cls_bound)
                new.append(self.visit(s))
                self.shadow.pop()
        node.body = new
        return node

    def _comp(self, node):
        gens = node.generators
        gens[0].iter = self.visit(gens[0].iter)         # evaluated in the enclosing scope
        bound = set()
        for g in gens:
            for n in ast.walk(g.target):
                if isinstance(n, ast.Name):
                    bound.add(n.id)
        self.shadow.append(bound)
        for i, g in enumerate(gens):
            g.target = self.visit(g.target)
            if i:
                g.iter = self.visit(g.iter)
            g.ifs = [self.visit(x) for x in g.ifs]
        for f in ("elt", "key", "value"):
            if hasattr(node, f):
                setattr(node, f, self.visit(getattr(node, f)))
        self.shadow.pop()
        return node

    visit_ListComp = visit_SetComp = visit_DictComp = visit_GeneratorExp = _comp


def expected_rehome(body, params):
    return [Rehome(params).visit(copy.deepcopy(s)) for s in body]


def dump(l):
    return [ast.dump(s) for s in l]


# ------------------------------------------------------------------ functions written as source text
# docstring shapes, as the source text of the first statement
DOC_ORDINARY = ['"""Summary line."""', "'doc'", '"""\n    Does things.\n\n    More text here.\n    """']
DOC_DEGENERATE = ['""""""', '""" """', "''", '""', "' '", "'   '", '"\\t"', '"""\n    """', '"""\n\n    """', '"""\n"""',
                  "'\\n'", '" \\n "', 'r""', "u''", 'R"""   """', '"" ""', "'' \"\"", '("")', "('' '')", "'''\n    \n    '''"]
DOC_NOT_A_DOCSTRING = ["b''", "b'doc'", "f''", "f'{q}'", "None", "...", "0", "fn_", "('', )", "''.strip()", "'' or None"]
SRC_ANNS = ["int", "str", "float", "bool", "Optional[int]", "List[str]"]
SRC_DEFAULTS = ["5", "0", "-1", "2.5", "'mnist'", "None", "True", "False"]


def is_docstring_stmt(stmt):
    """the independent judge of `this first statement is the docstring`"""
    return isinstance(stmt, ast.Expr) and isinstance(stmt.value, ast.Constant) and isinstance(stmt.value.value, str)


def gen_src_case(rng):
    """one function definition as source text: function type x parameters x docstring shape x generated body"""
    import gen_text as G
    ft = rng.choice(["static", "static", "self", "cls"])
    pn = []
    for _ in range(rng.choice([0, 1, 2, 2, 3])):
        name = G.ident(rng)
        if name not in pn:
            pn.append(name)
    ndef = rng.randint(0, len(pn))
    parts = [] if ft == "static" else [ft]
    for i, name in enumerate(pn):
        part = name
        if rng.random() < 0.4:
            part += ": " + rng.choice(SRC_ANNS)
        if i >= len(pn) - ndef:
            part += (" = " if ":" in part else "=") + rng.choice(SRC_DEFAULTS)
        parts.append(part)
    r = rng.random()
    if r < 0.12:
        dk, doc = "absent", None
    elif r < 0.30:
        dk, doc = "ordinary", rng.choice(DOC_ORDINARY)
        if pn and rng.random() < 0.6:
            fields = []
            for n_ in pn:
                fields.append("    :param %s: %s" % (n_, G.clean_prose(rng)))
                if rng.random() < 0.6:
                    fields.append("    :type %s: ```%s```" % (n_, rng.choice(SRC_ANNS)))
                fields.append("")
            doc = '"""\n    Summary line.\n\n' + "\n".join(fields) + '\n    """'
    elif r < 0.88:
        dk, doc = "degenerate", rng.choice(DOC_DEGENERATE)
    else:
        dk, doc = "not-a-docstring", rng.choice(DOC_NOT_A_DOCSTRING)
    body_src = fam_emitast.gen_body_src(rng, pn, allow_opaque_params=rng.random() < 0.25, kind="function")
    if rng.random() < 0.1:
        # stubs: a docstring and next to nothing
        body_src = rng.choice(["pass", "return", "return 5", "return %s" % (pn[0] if pn else "q"), "''", "'doc'", "...",
                               "raise NotImplementedError()"])
    name = rng.choice(["f", "g", "train", "run"])
    text = ("" if doc is None else "    " + doc + "\n") + "".join("    " + l + "\n" for l in body_src.split("\n"))
    src = "def %s(%s):\n%s" % (name, ", ".join(parts), text)
    ast.parse(src)
    o = {"function_type": ft, "inline_types": rng.random() < 0.5, "emit_as_kwonlyargs": rng.random() < 0.5,
         "emit_default_doc": rng.random() < 0.5, "word_wrap": rng.random() < 0.5}
    return {"kind": "fromsrc", "ir": None, "src": src, "body_src": body_src, "doc_kind": dk, "opts": o, "tags": ["doc:" + dk]}


# ------------------------------------------------------------------ classes written as source text (class -> class)
def gen_classrt_case(rng):
    """a class whose body has attributes plus (three times out of four) something to carry: methods incl. an existing
    __call__, nested classes, plain statements, interleaved with the attributes"""
    src, tags, ncarry = fam_c16rt.gen_class_with_body(rng)
    o = {"emit_call": rng.random() < 0.5, "word_wrap": rng.random() < 0.5, "emit_default_doc": rng.random() < 0.5,
         "infer_type": rng.random() < 0.2}
    return {"kind": "classrt", "ir": None, "src": src, "body_src": "", "carry": ncarry, "opts": o,
            "tags": tags + ["emit_call=%s" % o["emit_call"]]}


def is_attribute_stmt(stmt):
    """the independent judge of `this statement of a class body is part of the interface`"""
    return isinstance(stmt, (ast.AnnAssign, ast.Assign))


def carried_of_class(class_def):
    """the statements of a class body that are not its interface: everything after the docstring that is not an attribute"""
    body = class_def.body[1:] if class_def.body and is_docstring_stmt(class_def.body[0]) else list(class_def.body)
    return [s for s in body if not is_attribute_stmt(s)]


# ------------------------------------------------------------------ second opinion: the composed round-trip classifiers
def second_opinion(fn, src, o, name, ftype):
    """the same round-trip point (source text `src` parsed with the parser's defaults, emitted with the options o to
    name / ftype) run through the family c16rt: -> dict(class_req, rt_req, rt_out) or None"""
    try:
        extra = {}
        if fn == "function":
            import inspect
            m = impl()
            est = inspect.signature(m.emit.function).parameters["emit_separating_tab"].default
            a = {"src": src, "infer_type": False, "p_word_wrap": True, "p_ft": None, "p_fn": None, "ordk": "sorted",
                 "opts": {"function_name": name, "function_type": ftype, "word_wrap": o["word_wrap"],
                          "emit_default_doc": o["emit_default_doc"], "indent_level": 2, "emit_separating_tab": bool(est),
                          "inline_types": o["inline_types"], "emit_as_kwonlyargs": o["emit_as_kwonlyargs"]}}
            req, out = fam_c16rt.real_function(a, extra)
        else:
            a = {"src": src, "p_ft": None, "p_fn": None,
                 "opts": {"emit_default_doc": o["emit_default_doc"], "word_wrap": o["word_wrap"], "wrap_description": False,
                          "function_name": name, "function_type": "static"}}
            req, out = fam_c16rt.real_argparse(a, extra)
        return {"class_req": extra["class_req"], "rt_req": req, "rt_out": out, "src": src}
    except Exception:  # noqa  the second opinion never decides anything
        return None


# ------------------------------------------------------------------ cases
def gen_cases(rng, n):
    cases = []
    for _ in range(n):
        r0 = rng.random()
        if r0 < 0.2:
            cases.append(gen_src_case(rng))
            continue
        if r0 < 0.32:
            cases.append(gen_classrt_case(rng))
            continue
        kind = rng.choice(["function", "function", "argparse", "class"])
        ir, tags = gen_ir.gen_ir(rng, clean=rng.random() < 0.5)
        ir = {"name": "f", "type": "static", "doc": ir["doc"],
              "params": OrderedDict((k, dict(v)) for k, v in ir["params"].items()),
              "returns": None if ir["returns"] is None else OrderedDict((k, dict(v)) for k, v in ir["returns"].items())}
        for r_ in (ir["returns"] or {}).values():
            if not r_.get("doc") and rng.random() < 0.85:
                r_["doc"] = "the result."       # a return entry without prose makes to_docstring raise (C03's finding)
        pn = list(ir["params"])
        src = fam_emitast.gen_body_src(rng, pn, allow_opaque_params=rng.random() < 0.25, kind=kind if kind != "class" else "function")
        if kind == "class" and rng.random() < 0.35 and pn:
            a = rng.choice(pn)
            src = rng.choice(["def inner(%s):\n    return %s\n" % (a, a),
                              "def inner(q):\n    %s = q\n    return %s\n" % (a, a),
                              "class K:\n    %s = 1\n    z = %s\n" % (a, a),
                              "res_ = [%s for %s in items_]\n" % (a, a),
                              "fn_ = lambda %s: %s\n" % (a, a),
                              "def inner(q, k=%s):\n    return g(q, %s)\n" % (a, a)]) + src
        o = {"function_type": rng.choice(["static", "self", "cls"]) if kind == "function" else "static",
             "inline_types": rng.random() < 0.5, "emit_as_kwonlyargs": rng.random() < 0.5,
             "emit_default_doc": rng.random() < 0.5, "word_wrap": rng.random() < 0.5}
        cases.append({"kind": kind, "ir": ir, "body_src": src, "opts": o, "tags": tags})
    return cases


def _ir_with_body(case, name, typ):
    spec = dict(case["ir"])
    spec["_internal"] = {"body_src": case["body_src"], "from_name": name, "from_type": typ}
    return fam_emitast.materialise_ir(spec)


def _extra(body):
    """the non-interface statements of an argparse function body"""
    m = impl()
    out = []
    for i, s in enumerate(body):
        if i == 0 and isinstance(s, ast.Expr) and isinstance(getattr(s.value, "value", None), str):
            continue
        if m.ast_utils.is_argparse_add_argument(s) or m.ast_utils.is_argparse_description(s):
            continue
        out.append(s)
    return out


def evaluate(case):
    """-> list of (ok, what, classify-request or None, skipped-reason or None, second opinion or None)"""
    m = impl()
    kind, o = case["kind"], case["opts"]
    if kind == "fromsrc":
        return evaluate_fromsrc(case)
    if kind == "classrt":
        return evaluate_classrt(case)
    body = ast.parse(case["body_src"]).body
    res = []
    try:
        if kind == "function":
            ft = o["function_type"]
            kw = dict(word_wrap=o["word_wrap"], emit_default_doc=o["emit_default_doc"], inline_types=o["inline_types"],
                      emit_as_kwonlyargs=o["emit_as_kwonlyargs"])
            f1 = m.emit.function(_ir_with_body(case, "f", ft), "f", ft, **kw)
            has_rv = bool(((case["ir"].get("returns") or {}).get("return_type") or {}).get("default"))
            rv = f1.body[-1] if has_rv else None
            req = dumps([Sym("c16_class_function"), [astwire.enc_stmt(s) for s in body], opt(rv, astwire.enc_stmt)])
            ok = dump(f1.body[1:]) == dump(body)
            res.append((ok, "emit.function: carried body differs from emitted body" if not ok else "", req, None, None))
            src1 = ast.unparse(ast.fix_missing_locations(f1))
            f1p = ast.parse(src1).body[0]
            ir2 = m.parse.function(f1p)
            d2 = ((ir2.get("returns") or {}).get("return_type") or {}).get("default")
            f2 = m.emit.function(ir2, "f", ft, **kw)
            rv2 = f2.body[-1] if d2 else None
            req2 = dumps([Sym("c16_class_function"), [astwire.enc_stmt(s) for s in f1p.body[1:]], opt(rv2, astwire.enc_stmt)])
            ok2 = dump(f2.body[1:]) == dump(f1p.body[1:])
            res.append((ok2, "function round trip: body statements differ" if not ok2 else "", req2, None,
                        second_opinion("function", src1, o, "f", ft)))
        elif kind == "argparse":
            f1 = m.emit.argparse_function(_ir_with_body(case, "set_cli_args", "static"),
                                          emit_default_doc=o["emit_default_doc"], word_wrap=o["word_wrap"])
            req = dumps([Sym("c16_class_argparse"), [astwire.enc_stmt(s) for s in body]])
            got = _extra(f1.body)
            want = body if isinstance(body[-1], ast.Return) else body + [f1.body[-1]]
            ok = dump(got) == dump(want)
            res.append((ok, "emit.argparse_function: extra statements differ from the carried body (+ one final return)"
                        if not ok else "", req, None, None))
            src1 = ast.unparse(ast.fix_missing_locations(f1))
            f1p = ast.parse(src1).body[0]
            ir2 = m.parse.argparse_ast(f1p)
            inner = list((ir2.get("_internal") or {}).get("body") or [])
            f2 = m.emit.argparse_function(ir2, emit_default_doc=o["emit_default_doc"], word_wrap=o["word_wrap"],
                                          function_name="set_cli_args")
            req2 = dumps([Sym("c16_class_argparse"), [astwire.enc_stmt(s) for s in inner]])
            ok2 = dump(_extra(f2.body)) == dump(_extra(f1p.body))
            res.append((ok2, "argparse round trip: extra statements differ" if not ok2 else "", req2, None,
                        second_opinion("argparse", src1, o, "set_cli_args", "static")))
        else:
            ir = _ir_with_body(case, "C", "static")
            pn = list(ir["params"])
            c1 = m.emit.class_(ir, emit_call=True, class_name="C", word_wrap=o["word_wrap"],
                               emit_default_doc=o["emit_default_doc"])
            call = [s for s in c1.body if isinstance(s, ast.FunctionDef) and s.name == "__call__"]
            req = dumps([Sym("c16_class_call"), pn, [astwire.enc_stmt(s) for s in body]])
            if not pn:
                ok = bool(call) and dump(call[0].body) == dump(body)
                res.append((ok, "class without parameters: __call__ body differs from carried body" if not ok else "", None, None,
                            None))
            elif not call:
                res.append((False, "no __call__ emitted", req, None, None))
            else:
                ok = dump(call[0].body) == dump(expected_rehome(body, pn))
                res.append((ok, "__call__ body is not the scope-aware re-homing of the carried body" if not ok else "", req, None,
                            None))
    except Exception as e:  # noqa  the conversions themselves failing is C03/C04's clause, not evaluated here
        res.append((True, "", None, "raised %s" % type(e).__name__, None))
    return res


def evaluate_fromsrc(case):
    """a function written as source text -> parse.function -> emit.function / emit.class_(emit_call=True)"""
    m = impl()
    o = case["opts"]
    fun = ast.parse(case["src"]).body[0]
    impl_body = fun.body[1:] if is_docstring_stmt(fun.body[0]) else list(fun.body)    # everything after the docstring
    ft = o["function_type"]
    res = []
    try:
        ir = m.parse.function(copy.deepcopy(fun))
    except Exception as e:  # noqa  parse failing is C03/C04's clause
        return [(True, "", None, "parse raised %s" % type(e).__name__, None)]
    try:
        kw = dict(word_wrap=o["word_wrap"], emit_default_doc=o["emit_default_doc"], inline_types=o["inline_types"],
                  emit_as_kwonlyargs=o["emit_as_kwonlyargs"])
        f2 = m.emit.function(copy.deepcopy(ir), fun.name, ft, **kw)
        d2 = ((ir.get("returns") or {}).get("return_type") or {}).get("default")
        rv2 = f2.body[-1] if d2 else None
        req = dumps([Sym("c16_class_function"), [astwire.enc_stmt(s) for s in impl_body], opt(rv2, astwire.enc_stmt)])
        got = f2.body[1:] if f2.body and is_docstring_stmt(f2.body[0]) else f2.body
        ok = dump(got) == dump(impl_body)
        res.append((ok, "" if ok else "source function -> parse.function -> emit.function: the %d statements after the docstring "
                    "came back as %d statements: %s" % (len(impl_body), len(got), [ast.unparse(s) for s in got][:6]), req, None,
                    second_opinion("function", case["src"], o, fun.name, ft)))
    except Exception as e:  # noqa
        res.append((True, "", None, "raised %s" % type(e).__name__, None))
    try:
        pn = list(ir["params"])
        c1 = m.emit.class_(copy.deepcopy(ir), emit_call=True, class_name="C", word_wrap=o["word_wrap"],
                           emit_default_doc=o["emit_default_doc"])
        call = [s for s in c1.body if isinstance(s, ast.FunctionDef) and s.name == "__call__"]
        req = dumps([Sym("c16_class_call"), pn, [astwire.enc_stmt(s) for s in impl_body]]) if pn else None
        if not impl_body:
            ok = not call
            res.append((ok, "" if ok else "source function with nothing after its docstring: a __call__ was emitted: %s"
                        % ast.unparse(call[0]), None, None, None))
        elif not call:
            res.append((False, "source function -> class: no __call__ emitted", req, None, None))
        else:
            want = expected_rehome(impl_body, pn) if pn else impl_body
            ok = dump(call[0].body) == dump(want)
            res.append((ok, "" if ok else "source function -> class: __call__ body (%d statements) is not the scope-aware re-homing "
                        "of the %d statements after the docstring: %s"
                        % (len(call[0].body), len(impl_body), [ast.unparse(s) for s in call[0].body][:6]), req, None, None))
    except Exception as e:  # noqa
        res.append((True, "", None, "raised %s" % type(e).__name__, None))
    return res


def evaluate_classrt(case):
    """a class written as source text -> parse.class_ -> emit.class_ (same name): what is not an attribute comes back as it was"""
    m = impl()
    o = case["opts"]
    cd = ast.parse(case["src"]).body[0]
    want = carried_of_class(cd)
    try:
        ir = m.parse.class_(copy.deepcopy(cd), infer_type=o.get("infer_type", False), word_wrap=o["word_wrap"])
    except Exception as e:  # noqa  parse failing is C03/C04's clause
        return [(True, "", None, "parse raised %s" % type(e).__name__, None)]
    try:
        c2 = m.emit.class_(ir, emit_call=o["emit_call"], class_name=cd.name, word_wrap=o["word_wrap"],
                           emit_default_doc=o["emit_default_doc"])
    except Exception as e:  # noqa
        return [(True, "", None, "raised %s" % type(e).__name__, None)]
    got = carried_of_class(c2)
    ok = dump(got) == dump(want)
    req = dumps([Sym("c16rt_class_class"), astwire.enc_stmt(cd), o["emit_call"]])
    what = ""
    if not ok:
        lost = [s for s in want if ast.dump(s) not in set(dump(got))]
        what = ("class -> parse.class_ -> emit.class_(emit_call=%s): the %d statements of the class body that are not attributes "
                "(%s) came back as %d such statements (%s)%s"
                % (o["emit_call"], len(want), ", ".join(_head(s) for s in want)[:300], len(got),
                   ", ".join(_head(s) for s in got)[:300],
                   "; not in the class body any more: %s" % ", ".join(_head(s) for s in lost)[:300] if lost else ""))
    return [(ok, what, req, None, None)]


def _head(stmt):
    return (ast.unparse(stmt).split("\n")[0])[:60]


def check_case(case):
    for ok, what, _req, _skip, _so in evaluate(case):
        if not ok:
            return False, what
    return True, ""


def _class_name(o):
    e = loads(o)
    return None if e == "none" else (unhx(e[1]) if isinstance(e, list) else str(e))


def oracle(rng, tier):
    n = 1700 if tier == "quick" else 13500
    cases = gen_cases(rng, n)
    evals, reqs, owners = [], [], []
    so_reqs, so_owners = [], []
    for c in cases:
        for r in evaluate(c):
            evals.append((c, r))
            if r[2] is not None and not r[0]:
                owners.append(len(evals) - 1)
                reqs.append(r[2])
            if r[2] is not None and r[4] is not None:
                so_owners.append(len(evals) - 1)
                so_reqs += [r[2], r[4]["class_req"], r[4]["rt_req"]]
    outs = run_model(reqs + so_reqs)
    cls_of = {}
    for idx, o in zip(owners, outs):
        cls_of[idx] = _class_name(o)
    failures, hist, seen = [], collections.Counter(), set()
    # ---- second opinion (never decides): the classifier of C16Spec on the observed point vs the composed round-trip classifier
    so_outs = outs[len(reqs):]
    disagreements = []
    for j, idx in enumerate(so_owners):
        c, r = evals[idx]
        old, new, rt = so_outs[3 * j], so_outs[3 * j + 1], so_outs[3 * j + 2]
        rt_c = canon(loads(rt))
        if rt_c == "(err Unmodelled)":
            hist["second-opinion:round-trip-model-declines"] += 1
            continue
        hist["second-opinion:round-trip-model-%s" % ("agrees-with-run" if rt_c == canon(loads(r[4]["rt_out"])) else "DIFFERS-FROM-RUN")] += 1
        a, b = _class_name(old), _class_name(new)
        if a == b:
            hist["second-opinion:agree:%s" % (a or "in-guard")] += 1
        else:
            hist["second-opinion:DISAGREE:%s:%s-vs-rt-%s:%s" % (c["kind"], a or "in-guard", b or "in-guard",
                                                                "holds" if r[0] else "fails")] += 1
            if len(disagreements) < 40:
                disagreements.append({"kind": c["kind"], "point_src": r[4]["src"], "opts": c["opts"], "property_holds": r[0],
                                      "c16spec_class": a, "round_trip_class": b})
    kept = collections.Counter()
    for idx, (c, (ok, what, req, skip, _so)) in enumerate(evals):
        if skip:
            hist["skipped:" + c["kind"] + ":" + skip] += 1
            continue
        if ok:
            hist["holds:" + c["kind"]] += 1
            if c["kind"] == "fromsrc":
                hist["holds:fromsrc:doc-" + c["doc_kind"]] += 1
            if c["kind"] == "classrt":
                hist["holds:classrt:%s" % ("nothing-to-carry" if not c["carry"] else "carried")] += 1
            seen.add((c["kind"], c.get("src") or c["body_src"]))
            continue
        cls = cls_of.get(idx)
        if cls and cls.endswith("unmodelled"):
            hist["skipped-unmodelled:" + c["kind"]] += 1
            continue
        hist["fails:%s:%s" % (c["kind"], cls or "in-guard")] += 1
        if c["kind"] == "classrt":
            hist["fails:classrt:emit_call=%s" % c["opts"]["emit_call"]] += 1
        kept[(c["kind"], cls)] += 1
        if cls is not None and kept[(c["kind"], cls)] > 25:
            continue
        failures.append({"case": {k: c[k] for k in ("kind", "ir", "body_src", "opts", "src", "doc_kind", "carry") if k in c},
                         "what": what, "class": cls})
    return {
        "evaluations": len(evals),
        "distinct_nontrivial": len(seen),
        "rule": "generated bodies (assignments, calls with keyword arguments named like parameters, loops, conditionals with "
                "early returns, nested functions, comprehensions) x generated interfaces x {function, argparse, class __call__}; "
                "plus functions/methods written as source text with a docstring of every shape (absent, ordinary, empty, blank, "
                "raw/concatenated/parenthesised literal, leading non-docstring expression) -> parse.function -> "
                "{emit.function, class __call__}; plus classes written as source text (attributes interleaved with methods incl. "
                "an existing __call__, nested classes, plain statements; or attributes only) -> parse.class_ -> emit.class_ "
                "(same name, emit_call on/off); "
                "non-trivial = distinct (kind, body) on which the clause holds; conversions that raise are not evaluated here",
        "failures": failures,
        "histogram": dict(hist),
        "classifier_second_opinion": {"compared": len(so_owners), "disagreements": disagreements},
        "samples": [{k: c[k] for k in ("kind", "body_src")} for c in cases[:5]] +
                   [{k: c[k] for k in ("kind", "src")} for c in cases if c["kind"] == "fromsrc"][:3] +
                   [{k: c[k] for k in ("kind", "src")} for c in cases if c["kind"] == "classrt"][:2],
    }


if __name__ == "__main__":
    # development aid:  PYTHONPATH=/repo PYTHONHASHSEED=0 /venv/bin/python harness/prop_C16.py [seed] [tier]
    import json
    import random
    import sys
    res = oracle(random.Random(int(sys.argv[1]) if len(sys.argv) > 1 else 1), sys.argv[2] if len(sys.argv) > 2 else "quick")
    print({k: res[k] for k in ("evaluations", "distinct_nontrivial")})
    for k, v in sorted(res["histogram"].items()):
        print("   %-90s %d" % (k, v))
    bad = [f for f in res["failures"] if f["class"] is None]
    print("failures:", len(res["failures"]), " with class None:", len(bad))
    for f in bad[:5]:
        print("   VIOLATION", json.dumps(f, default=str)[:1200])
    so = res["classifier_second_opinion"]
    print("second opinion: compared", so["compared"], "disagreements shown", len(so["disagreements"]))
    for d in so["disagreements"][:int(sys.argv[3]) if len(sys.argv) > 3 else 6]:
        print("   DISAGREE", json.dumps({k: v for k, v in d.items() if k != "point_src"}, default=str))
        print(d["point_src"])
