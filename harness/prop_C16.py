"""C16 - implementation bodies are carried through conversions verbatim.

Oracle on the implementation: generated bodies attached to generated interfaces;
  function : emit.function(ir + body) -> source -> parse.function -> emit.function (same name, type) and the
             body statements compared by ast.dump (emit level: against the carried body; round trip: against the
             body of the function that was parsed);
  argparse : same with emit.argparse_function / parse.argparse_ast;
  class    : emit.class_(ir + body, emit_call=True): the body of __call__ compared with an independent,
             scope-aware re-homing of the body (exactly the references to parameters become self.<name>).
  fromsrc  : a function / method written as SOURCE TEXT (signature, a docstring of any shape - absent, ordinary, empty,
             blank, raw/concatenated/parenthesised literal, or a leading expression that is not a docstring - then a
             generated body) -> parse.function -> emit.function (same name, type) and -> emit.class_(emit_call=True);
             the statements after the docstring (judged independently: first statement is an `Expr` of a `str`
             constant) must come back exactly, resp. as their scope-aware re-homing.
Each failure is classified by the extracted Coq functions of coq/model/C16Spec.v."""
import ast
import collections
import copy
from collections import OrderedDict

from common import Sym, dumps, loads, opt, impl, run_model, unhx
import astwire
import gen_ir
import fam_emitast

ID = "C16"
COQ_PROP = "C16"
import fam_parsesig  # noqa: E402
import fam_parseast  # noqa: E402

# bodies are carried by parse (function / argparse / class parsers) and by the emitters
FAMILIES = [(fam_emitast, 3000, 40000), (fam_parsesig, 1500, 15000), (fam_parseast, 1500, 15000)]
TECHNIQUE = ("Coq proof (list lemmas over the three splice sites, RewriteName = scoped substitution by induction over "
             "statement/expression trees; unbounded in body length and depth) + differential correspondence of "
             "EmitAst.v against emit.py/ast_utils.py/emitter_utils.py")
TRUSTED = [
    "to_docstring / emit.docstring results are inputs of the EmitAst model (recorded from the compared call)",
    "ast.parse on code strings outside TyExpr's fragment is an input table (recorded)",
    "opaque statements/expressions (If/For/BinOp/comprehensions...) are carried by canonical ast.unparse text; a body whose "
    "opaque text mentions a parameter name is outside the model (class call-unmodelled)",
    "the parse side of the round trip (parse.function, parse.argparse_ast) is ParseAst's model; here it is only executed",
]


# ------------------------------------------------------------------ independent judge for the __call__ re-homing
def _bound_in(stmts):
    """names a statement list binds in its own scope (not descending into nested scopes)"""
    out = set()
    decl = set()

    def tgt(t):
        if isinstance(t, ast.Name):
            out.add(t.id)
        elif isinstance(t, (ast.Tuple, ast.List)):
            for e in t.elts:
                tgt(e)
        elif isinstance(t, ast.Starred):
            tgt(t.value)

    def walk_expr(e):
        for n in ast.walk(e):
            if isinstance(n, ast.NamedExpr):
                tgt(n.target)

    def st(s):
        if isinstance(s, (ast.FunctionDef, ast.AsyncFunctionDef, ast.ClassDef)):
            out.add(s.name)
            return
        if isinstance(s, (ast.Assign,)):
            for t in s.targets:
                tgt(t)
        elif isinstance(s, (ast.AnnAssign, ast.AugAssign)):
            tgt(s.target)
        elif isinstance(s, (ast.For, ast.AsyncFor)):
            tgt(s.target)
        elif isinstance(s, (ast.With, ast.AsyncWith)):
            for it in s.items:
                if it.optional_vars is not None:
                    tgt(it.optional_vars)
        elif isinstance(s, (ast.Import, ast.ImportFrom)):
            for a in s.names:
                out.add((a.asname or a.name).split(".")[0])
        elif isinstance(s, (ast.Global, ast.Nonlocal)):
            decl.update(s.names)
        for f in ("body", "orelse", "finalbody"):
            for c in getattr(s, f, []) or []:
                if isinstance(c, ast.stmt):
                    st(c)
        for h in getattr(s, "handlers", []) or []:
            if h.name:
                out.add(h.name)
            for c in h.body:
                st(c)
    for s in stmts:
        st(s)
    return out - decl


def _arg_names(a):
    return {x.arg for x in a.posonlyargs + a.args + a.kwonlyargs} | ({a.vararg.arg} if a.vararg else set()) | \
        ({a.kwarg.arg} if a.kwarg else set())


class Rehome(ast.NodeTransformer):
    """scope-aware: a Name is a reference to a parameter unless an enclosing nested scope binds that name"""

    def __init__(self, params):
        self.params = set(params)
        self.shadow = []

    def visit_Name(self, node):
        if node.id in self.params and not any(node.id in s for s in self.shadow):
            return ast.Attribute(ast.Name("self", ast.Load()), node.id, ast.Load())
        return node

    def _outer_parts_of_args(self, a):
        a.defaults = [self.visit(d) for d in a.defaults]
        a.kw_defaults = [None if d is None else self.visit(d) for d in a.kw_defaults]
        for x in a.posonlyargs + a.args + a.kwonlyargs + [y for y in (a.vararg, a.kwarg) if y]:
            if x.annotation is not None:
                x.annotation = self.visit(x.annotation)

    def _function(self, node):
        node.decorator_list = [self.visit(d) for d in node.decorator_list]
        self._outer_parts_of_args(node.args)
        if node.returns is not None:
            node.returns = self.visit(node.returns)
        self.shadow.append(_arg_names(node.args) | _bound_in(node.body))
        node.body = [self.visit(s) for s in node.body]
        self.shadow.pop()
        return node

    visit_FunctionDef = _function
    visit_AsyncFunctionDef = _function

    def visit_Lambda(self, node):
        self._outer_parts_of_args(node.args)
        self.shadow.append(_arg_names(node.args))
        node.body = self.visit(node.body)
        self.shadow.pop()
        return node

    def visit_ClassDef(self, node):
        node.decorator_list = [self.visit(d) for d in node.decorator_list]
        node.bases = [self.visit(d) for d in node.bases]
        for k in node.keywords:
            k.value = self.visit(k.value)
        cls_bound = _bound_in(node.body)
        new = []
        for s in node.body:
            if isinstance(s, (ast.FunctionDef, ast.AsyncFunctionDef)):
                new.append(self.visit(s))       # methods do not see the class scope
            else:
                self.shadow.append(cls_bound)
                new.append(self.visit(s))
                self.shadow.pop()
        node.body = new
        return node

    def _comp(self, node):
        gens = node.generators
        gens[0].iter = self.visit(gens[0].iter)         # evaluated in the enclosing scope
        bound = set()
        for g in gens:
            for n in ast.walk(g.target):
                if isinstance(n, ast.Name):
                    bound.add(n.id)
        self.shadow.append(bound)
        for i, g in enumerate(gens):
            g.target = self.visit(g.target)
            if i:
                g.iter = self.visit(g.iter)
            g.ifs = [self.visit(x) for x in g.ifs]
        for f in ("elt", "key", "value"):
            if hasattr(node, f):
                setattr(node, f, self.visit(getattr(node, f)))
        self.shadow.pop()
        return node

    visit_ListComp = visit_SetComp = visit_DictComp = visit_GeneratorExp = _comp


def expected_rehome(body, params):
    return [Rehome(params).visit(copy.deepcopy(s)) for s in body]


def dump(l):
    return [ast.dump(s) for s in l]


# ------------------------------------------------------------------ functions written as source text
# docstring shapes, as the source text of the first statement
DOC_ORDINARY = ['"""Summary line."""', "'doc'", '"""\n    Does things.\n\n    More text here.\n    """']
DOC_DEGENERATE = ['""""""', '""" """', "''", '""', "' '", "'   '", '"\\t"', '"""\n    """', '"""\n\n    """', '"""\n"""',
                  "'\\n'", '" \\n "', 'r""', "u''", 'R"""   """', '"" ""', "'' \"\"", '("")', "('' '')", "'''\n    \n    '''"]
DOC_NOT_A_DOCSTRING = ["b''", "b'doc'", "f''", "f'{q}'", "None", "...", "0", "fn_", "('', )", "''.strip()", "'' or None"]
SRC_ANNS = ["int", "str", "float", "bool", "Optional[int]", "List[str]"]
SRC_DEFAULTS = ["5", "0", "-1", "2.5", "'mnist'", "None", "True", "False"]


def is_docstring_stmt(stmt):
    """the independent judge of `this first statement is the docstring`"""
    return isinstance(stmt, ast.Expr) and isinstance(stmt.value, ast.Constant) and isinstance(stmt.value.value, str)


def gen_src_case(rng):
    """one function definition as source text: function type x parameters x docstring shape x generated body"""
    import gen_text as G
    ft = rng.choice(["static", "static", "self", "cls"])
    pn = []
    for _ in range(rng.choice([0, 1, 2, 2, 3])):
        name = G.ident(rng)
        if name not in pn:
            pn.append(name)
    ndef = rng.randint(0, len(pn))
    parts = [] if ft == "static" else [ft]
    for i, name in enumerate(pn):
        part = name
        if rng.random() < 0.4:
            part += ": " + rng.choice(SRC_ANNS)
        if i >= len(pn) - ndef:
            part += (" = " if ":" in part else "=") + rng.choice(SRC_DEFAULTS)
        parts.append(part)
    r = rng.random()
    if r < 0.12:
        dk, doc = "absent", None
    elif r < 0.30:
        dk, doc = "ordinary", rng.choice(DOC_ORDINARY)
        if pn and rng.random() < 0.6:
            fields = []
            for n_ in pn:
                fields.append("    :param %s: %s" % (n_, G.clean_prose(rng)))
                if rng.random() < 0.6:
                    fields.append("    :type %s: ```%s```" % (n_, rng.choice(SRC_ANNS)))
                fields.append("")
            doc = '"""\n    Summary line.\n\n' + "\n".join(fields) + '\n    """'
    elif r < 0.88:
        dk, doc = "degenerate", rng.choice(DOC_DEGENERATE)
    else:
        dk, doc = "not-a-docstring", rng.choice(DOC_NOT_A_DOCSTRING)
    body_src = fam_emitast.gen_body_src(rng, pn, allow_opaque_params=rng.random() < 0.25, kind="function")
    if rng.random() < 0.1:
        # stubs: a docstring and next to nothing
        body_src = rng.choice(["pass", "return", "return 5", "return %s" % (pn[0] if pn else "q"), "''", "'doc'", "...",
                               "raise NotImplementedError()"])
    name = rng.choice(["f", "g", "train", "run"])
    text = ("" if doc is None else "    " + doc + "\n") + "".join("    " + l + "\n" for l in body_src.split("\n"))
    src = "def %s(%s):\n%s" % (name, ", ".join(parts), text)
    ast.parse(src)
    o = {"function_type": ft, "inline_types": rng.random() < 0.5, "emit_as_kwonlyargs": rng.random() < 0.5,
         "emit_default_doc": rng.random() < 0.5, "word_wrap": rng.random() < 0.5}
    return {"kind": "fromsrc", "ir": None, "src": src, "body_src": body_src, "doc_kind": dk, "opts": o, "tags": ["doc:" + dk]}


# ------------------------------------------------------------------ cases
def gen_cases(rng, n):
    cases = []
    for _ in range(n):
        if rng.random() < 0.2:
            cases.append(gen_src_case(rng))
            continue
        kind = rng.choice(["function", "function", "argparse", "class"])
        ir, tags = gen_ir.gen_ir(rng, clean=rng.random() < 0.5)
        ir = {"name": "f", "type": "static", "doc": ir["doc"],
              "params": OrderedDict((k, dict(v)) for k, v in ir["params"].items()),
              "returns": None if ir["returns"] is None else OrderedDict((k, dict(v)) for k, v in ir["returns"].items())}
        for r_ in (ir["returns"] or {}).values():
            if not r_.get("doc") and rng.random() < 0.85:
                r_["doc"] = "the result."       # a return entry without prose makes to_docstring raise (C03's finding)
        pn = list(ir["params"])
        src = fam_emitast.gen_body_src(rng, pn, allow_opaque_params=rng.random() < 0.25, kind=kind if kind != "class" else "function")
        if kind == "class" and rng.random() < 0.35 and pn:
            a = rng.choice(pn)
            src = rng.choice(["def inner(%s):\n    return %s\n" % (a, a),
                              "def inner(q):\n    %s = q\n    return %s\n" % (a, a),
                              "class K:\n    %s = 1\n    z = %s\n" % (a, a),
                              "res_ = [%s for %s in items_]\n" % (a, a),
                              "fn_ = lambda %s: %s\n" % (a, a),
                              "def inner(q, k=%s):\n    return g(q, %s)\n" % (a, a)]) + src
        o = {"function_type": rng.choice(["static", "self", "cls"]) if kind == "function" else "static",
             "inline_types": rng.random() < 0.5, "emit_as_kwonlyargs": rng.random() < 0.5,
             "emit_default_doc": rng.random() < 0.5, "word_wrap": rng.random() < 0.5}
        cases.append({"kind": kind, "ir": ir, "body_src": src, "opts": o, "tags": tags})
    return cases


def _ir_with_body(case, name, typ):
    spec = dict(case["ir"])
    spec["_internal"] = {"body_src": case["body_src"], "from_name": name, "from_type": typ}
    return fam_emitast.materialise_ir(spec)


def _extra(body):
    """the non-interface statements of an argparse function body"""
    m = impl()
    out = []
    for i, s in enumerate(body):
        if i == 0 and isinstance(s, ast.Expr) and isinstance(getattr(s.value, "value", None), str):
            continue
        if m.ast_utils.is_argparse_add_argument(s) or m.ast_utils.is_argparse_description(s):
            continue
        out.append(s)
    return out


def evaluate(case):
    """-> list of (ok, what, classify-request or None, skipped-reason or None)"""
    m = impl()
    kind, o = case["kind"], case["opts"]
    if kind == "fromsrc":
        return evaluate_fromsrc(case)
    body = ast.parse(case["body_src"]).body
    res = []
    try:
        if kind == "function":
            ft = o["function_type"]
            kw = dict(word_wrap=o["word_wrap"], emit_default_doc=o["emit_default_doc"], inline_types=o["inline_types"],
                      emit_as_kwonlyargs=o["emit_as_kwonlyargs"])
            f1 = m.emit.function(_ir_with_body(case, "f", ft), "f", ft, **kw)
            has_rv = bool(((case["ir"].get("returns") or {}).get("return_type") or {}).get("default"))
            rv = f1.body[-1] if has_rv else None
            req = dumps([Sym("c16_class_function"), [astwire.enc_stmt(s) for s in body], opt(rv, astwire.enc_stmt)])
            ok = dump(f1.body[1:]) == dump(body)
            res.append((ok, "emit.function: carried body differs from emitted body" if not ok else "", req, None))
            f1p = ast.parse(ast.unparse(ast.fix_missing_locations(f1))).body[0]
            ir2 = m.parse.function(f1p)
            d2 = ((ir2.get("returns") or {}).get("return_type") or {}).get("default")
            f2 = m.emit.function(ir2, "f", ft, **kw)
            rv2 = f2.body[-1] if d2 else None
            req2 = dumps([Sym("c16_class_function"), [astwire.enc_stmt(s) for s in f1p.body[1:]], opt(rv2, astwire.enc_stmt)])
            ok2 = dump(f2.body[1:]) == dump(f1p.body[1:])
            res.append((ok2, "function round trip: body statements differ" if not ok2 else "", req2, None))
        elif kind == "argparse":
            f1 = m.emit.argparse_function(_ir_with_body(case, "set_cli_args", "static"),
                                          emit_default_doc=o["emit_default_doc"], word_wrap=o["word_wrap"])
            req = dumps([Sym("c16_class_argparse"), [astwire.enc_stmt(s) for s in body]])
            got = _extra(f1.body)
            want = body if isinstance(body[-1], ast.Return) else body + [f1.body[-1]]
            ok = dump(got) == dump(want)
            res.append((ok, "emit.argparse_function: extra statements differ from the carried body (+ one final return)"
                        if not ok else "", req, None))
            f1p = ast.parse(ast.unparse(ast.fix_missing_locations(f1))).body[0]
            ir2 = m.parse.argparse_ast(f1p)
            inner = list((ir2.get("_internal") or {}).get("body") or [])
            f2 = m.emit.argparse_function(ir2, emit_default_doc=o["emit_default_doc"], word_wrap=o["word_wrap"],
                                          function_name="set_cli_args")
            req2 = dumps([Sym("c16_class_argparse"), [astwire.enc_stmt(s) for s in inner]])
            ok2 = dump(_extra(f2.body)) == dump(_extra(f1p.body))
            res.append((ok2, "argparse round trip: extra statements differ" if not ok2 else "", req2, None))
        else:
            ir = _ir_with_body(case, "C", "static")
            pn = list(ir["params"])
            c1 = m.emit.class_(ir, emit_call=True, class_name="C", word_wrap=o["word_wrap"],
                               emit_default_doc=o["emit_default_doc"])
            call = [s for s in c1.body if isinstance(s, ast.FunctionDef) and s.name == "__call__"]
            req = dumps([Sym("c16_class_call"), pn, [astwire.enc_stmt(s) for s in body]])
            if not pn:
                ok = bool(call) and dump(call[0].body) == dump(body)
                res.append((ok, "class without parameters: __call__ body differs from carried body" if not ok else "", None, None))
            elif not call:
                res.append((False, "no __call__ emitted", req, None))
            else:
                ok = dump(call[0].body) == dump(expected_rehome(body, pn))
                res.append((ok, "__call__ body is not the scope-aware re-homing of the carried body" if not ok else "", req, None))
    except Exception as e:  # noqa  the conversions themselves failing is C03/C04's clause, not evaluated here
        res.append((True, "", None, "raised %s" % type(e).__name__))
    return res


def evaluate_fromsrc(case):
    """a function written as source text -> parse.function -> emit.function / emit.class_(emit_call=True)"""
    m = impl()
    o = case["opts"]
    fun = ast.parse(case["src"]).body[0]
    impl_body = fun.body[1:] if is_docstring_stmt(fun.body[0]) else list(fun.body)    # everything after the docstring
    ft = o["function_type"]
    res = []
    try:
        ir = m.parse.function(copy.deepcopy(fun))
    except Exception as e:  # noqa  parse failing is C03/C04's clause
        return [(True, "", None, "parse raised %s" % type(e).__name__)]
    try:
        kw = dict(word_wrap=o["word_wrap"], emit_default_doc=o["emit_default_doc"], inline_types=o["inline_types"],
                  emit_as_kwonlyargs=o["emit_as_kwonlyargs"])
        f2 = m.emit.function(copy.deepcopy(ir), fun.name, ft, **kw)
        d2 = ((ir.get("returns") or {}).get("return_type") or {}).get("default")
        rv2 = f2.body[-1] if d2 else None
        req = dumps([Sym("c16_class_function"), [astwire.enc_stmt(s) for s in impl_body], opt(rv2, astwire.enc_stmt)])
        got = f2.body[1:] if f2.body and is_docstring_stmt(f2.body[0]) else f2.body
        ok = dump(got) == dump(impl_body)
        res.append((ok, "" if ok else "source function -> parse.function -> emit.function: the %d statements after the docstring "
                    "came back as %d statements: %s" % (len(impl_body), len(got), [ast.unparse(s) for s in got][:6]), req, None))
    except Exception as e:  # noqa
        res.append((True, "", None, "raised %s" % type(e).__name__))
    try:
        pn = list(ir["params"])
        c1 = m.emit.class_(copy.deepcopy(ir), emit_call=True, class_name="C", word_wrap=o["word_wrap"],
                           emit_default_doc=o["emit_default_doc"])
        call = [s for s in c1.body if isinstance(s, ast.FunctionDef) and s.name == "__call__"]
        req = dumps([Sym("c16_class_call"), pn, [astwire.enc_stmt(s) for s in impl_body]]) if pn else None
        if not impl_body:
            ok = not call
            res.append((ok, "" if ok else "source function with nothing after its docstring: a __call__ was emitted: %s"
                        % ast.unparse(call[0]), None, None))
        elif not call:
            res.append((False, "source function -> class: no __call__ emitted", req, None))
        else:
            want = expected_rehome(impl_body, pn) if pn else impl_body
            ok = dump(call[0].body) == dump(want)
            res.append((ok, "" if ok else "source function -> class: __call__ body (%d statements) is not the scope-aware re-homing "
                        "of the %d statements after the docstring: %s"
                        % (len(call[0].body), len(impl_body), [ast.unparse(s) for s in call[0].body][:6]), req, None))
    except Exception as e:  # noqa
        res.append((True, "", None, "raised %s" % type(e).__name__))
    return res


def check_case(case):
    for ok, what, _req, _skip in evaluate(case):
        if not ok:
            return False, what
    return True, ""


def oracle(rng, tier):
    n = 1500 if tier == "quick" else 12000
    cases = gen_cases(rng, n)
    evals, reqs, owners = [], [], []
    for c in cases:
        for r in evaluate(c):
            evals.append((c, r))
            if r[2] is not None and not r[0]:
                owners.append(len(evals) - 1)
                reqs.append(r[2])
    outs = run_model(reqs)
    cls_of = {}
    for idx, o in zip(owners, outs):
        e = loads(o)
        cls_of[idx] = None if e == "none" else (unhx(e[1]) if isinstance(e, list) else str(e))
    failures, hist, seen = [], collections.Counter(), set()
    kept = collections.Counter()
    for idx, (c, (ok, what, req, skip)) in enumerate(evals):
        if skip:
            hist["skipped:" + c["kind"] + ":" + skip] += 1
            continue
        if ok:
            hist["holds:" + c["kind"]] += 1
            if c["kind"] == "fromsrc":
                hist["holds:fromsrc:doc-" + c["doc_kind"]] += 1
            seen.add((c["kind"], c.get("src") or c["body_src"]))
            continue
        cls = cls_of.get(idx)
        if cls and cls.endswith("unmodelled"):
            hist["skipped-unmodelled:" + c["kind"]] += 1
            continue
        hist["fails:%s:%s" % (c["kind"], cls or "in-guard")] += 1
        kept[(c["kind"], cls)] += 1
        if cls is not None and kept[(c["kind"], cls)] > 25:
            continue
        failures.append({"case": {k: c[k] for k in ("kind", "ir", "body_src", "opts", "src", "doc_kind") if k in c},
                         "what": what, "class": cls})
    return {
        "evaluations": len(evals),
        "distinct_nontrivial": len(seen),
        "rule": "generated bodies (assignments, calls with keyword arguments named like parameters, loops, conditionals with "
                "early returns, nested functions, comprehensions) x generated interfaces x {function, argparse, class __call__}; "
                "plus functions/methods written as source text with a docstring of every shape (absent, ordinary, empty, blank, "
                "raw/concatenated/parenthesised literal, leading non-docstring expression) -> parse.function -> "
                "{emit.function, class __call__}; "
                "non-trivial = distinct (kind, body) on which the clause holds; conversions that raise are not evaluated here",
        "failures": failures,
        "histogram": dict(hist),
        "samples": [{k: c[k] for k in ("kind", "body_src")} for c in cases[:5]] +
                   [{k: c[k] for k in ("kind", "src")} for c in cases if c["kind"] == "fromsrc"][:3],
    }
