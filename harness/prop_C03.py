"""C03 — function / method round-trip fidelity.

Oracle: the real  emit.function(ir, "f", kind, inline_types, emit_as_kwonlyargs, indent_level 0..2, emit_separating_tab,
emit_default_doc, word_wrap) -> ast.unparse -> ast.parse -> parse.function  over interface descriptions from gen_ir
(clean and general), single-parameter strata (type shape x prose shape x default kind), wider scalar values, return-entry
strata and **kwargs strata, x kind {static, self, cls} x inline types x keyword-only x indent x separating tab x default
text x word wrap.  The parsed-back description is compared with the input (names and order with the ** parameter, types,
prose, defaults strictly - an absent default must stay absent, an explicit one keeps value and Python type with
None ~ "None" ~ NoneStr -, the return entry with its returned default expression, and the kind); an exception anywhere
is a failure ("never raises").  Every failure is classified by the extracted Coq function finding_class_C03_r
(coq/model/C03Spec2.v: C03Spec's finding_class_C03 refined by the classes prose-exotic-blank,
type-text-not-docstring-safe and summary-reads-as-section that the proof of the docstring link found inside its "no
finding" region), a function of the options and the input only; a failure whose class is None is a VIOLATION.  A new
class stands only for the failure it describes (described_by_new_classes): any other difference at such a point is a
violation.  A stratum of the oracle draws those shapes.

Cross-checks on every evaluated point: (1) the Coq relations same_interface_fn / kind_preserved applied to the real output
agree with the Python comparison; (2) the composed model round_trip_fn (EmitAst.emit_function -> reparse_stmt ->
ParseSig.parse_function, fed the recorded to_docstring text and docstring-derived IR) gives the very IR the implementation
gave; (3) for every point inside the guard the hypothesis doc_agrees of the composition theorems is evaluated by the Coq
function on the REAL docstring-derived IR and reported as a violation when false."""
import collections
import json

from common import Sym, dumps, loads, run_model, unhx, canon
import irwire
import fam_c03
import fam_emitast
import fam_parsesig

ID = "C03"
COQ_PROP = "C03"
import fam_docemit  # noqa: E402  (the function docstring is written by to_docstring / fill and read by the ReST parser)
import fam_docparse  # noqa: E402

FAMILIES = [(fam_emitast, 1500, 20000), (fam_parsesig, 1500, 20000), (fam_c03, 1200, 15000), (fam_docemit, 1000, 12000), (fam_docparse, 1000, 12000)]
TECHNIQUE = ("Coq proof (composition of the emit.function model, the unparse/re-parse step and the parse.function model, "
             "unbounded in the number of parameters: names/order, kind, **kwargs, positional vs keyword-only default "
             "alignment, inline annotations, defaults per value class, return entry; under guard_C03 and the named "
             "docstring hypothesis doc_agrees; refutation witness) + differential correspondence of the three models "
             "+ round-trip oracle on the real emitter/parser with an exact Coq classifier")
TRUSTED = [
    "the docstring layer is decoupled exactly as the models are: the emitter model takes the text to_docstring returned, the parser "
    "model takes the docstring-derived IR; the composition theorems assume doc_agrees (names/order/prose of the documented entries, "
    "types when written into the docstring), which is not proved for to_docstring's indented text here (C01 proves the ReST round "
    "trip for emit.docstring's text); the oracle evaluates doc_agrees on the real docstring-derived IR of every in-guard point",
    "C03Spec.reparse_stmt models ast.parse(ast.unparse(node)) on the emitted fragment (negative numeric constants become UnaryOp, "
    "Name(None) raises TypeError, the rest is a fixed point); validated by the c03 family, not proved",
    "ParseSig.show_expr / lit_eval model ast.unparse / ast.literal_eval; TyExpr models ast.parse on type strings; the parse table "
    "fo_pt carries what ast.parse makes of the code of a return default (recorded from the run)",
    "finding_class_C03_r (the partition of the failures of the real code: finding_class_C03 plus the three classes of "
    "model/C03Spec2.v that the proof of the docstring link found - C03_doc_link_witnesses) is validated by the oracle on every "
    "run, not proved complete (proofs/C03Spec2Facts.v: the refinement only adds these, its guard is inside guard_C03); which "
    "differences a new class describes is decided by the oracle (described_by_new_classes) from the entries the Coq "
    "function names",
]


def _class_requests(pts, fn="c03_class_r"):
    reqs = []
    for ir, o, _ in pts:
        pt = fam_c03.pt_of(fam_c03.od(ir))
        reqs.append(dumps([Sym(fn)] + fam_c03.opts_wire(o, pt) + [irwire.enc_ir(fam_c03.od(ir))]))
    return reqs


# ------------------------------------------------------------------ the classes of model/C03Spec2.v
NEW_CLASSES = ("prose-exotic-blank", "type-text-not-docstring-safe", "summary-reads-as-section")
TOKEN_TYPES = ["Literal[':type']", "Literal[':param', 'x']", "Literal[':return']", "Literal['a :rtype: b']", "Literal[':cvar x']",
               "Literal[':returns:']"]
BROKEN_LINE_TYPES = ["List[\nint]", "Dict[str,\n int]", "Optional[\nstr]", "Tuple[int,\n    str]", "Literal['a\x0cb']",
                     "Literal['a\x0bb', 'c']"]
KWARGS_TYPES = ["**int", "**kw", "**Dict[str, int]"]


def _new_info(resp):
    """(new classes that apply, entries with exotic prose, entries whose written type text holds a field token, entries whose
    written type text is unsafe otherwise) from the answer to c03_new_classes"""
    e = loads(resp)
    return tuple([unhx(x) for x in part] for part in e)


def _entry(ir, n):
    if n == "return_type":
        return ((ir.get("returns") or {}).get("return_type")) if ir.get("returns") else None
    return (ir.get("params") or {}).get(n)


def described_by_new_classes(ir, o, t, info):
    """a new class stands for the failure it describes only.  What the classes that apply leave open:
      prose-exotic-blank            the prose of the entries that hold such a blank;
      type-text-not-docstring-safe  the type of the entries whose written type text breaks a line / starts with **; for a
                                    type text with a field token (the scanner cuts the docstring inside it) the type and
                                    prose of that entry, entries invented from the cut text, or a SyntaxError of the parser;
      summary-reads-as-section      the docstring-derived IR is not empty although nothing was documented: whatever it
                                    mentions (entries and a return entry invented or overwritten), or an exception of the
                                    section parser.
    Everything else must have come back as it was put in (and the kind): otherwise the failure is not of these classes."""
    import copy
    news, exotic, tok, unsafe = info
    section = "summary-reads-as-section" in news
    if t.stage != "done":
        if t.stage in ("docstring", "parse"):
            return section or (bool(tok) and isinstance(t.exc, SyntaxError))
        return False
    free = collections.defaultdict(set)
    for n in exotic:
        free[n].add("doc")
    for n in unsafe:
        free[n].add("typ")
    for n in tok:
        free[n] |= {"typ", "doc"}
    invented_ok = bool(tok)
    if section and t.doc_ir is not None:
        invented_ok = True
        for n in (t.doc_ir.get("params") or {}):
            free[n] |= {"typ", "doc", "default"}
        if (t.doc_ir.get("returns") or {}).get("return_type"):
            free["return_type"] |= {"typ", "doc", "default"}
    exp = {"params": collections.OrderedDict((k, dict(v)) for k, v in ir["params"].items()), "returns": None}
    if _entry(ir, "return_type") is not None:
        exp["returns"] = {"return_type": dict(_entry(ir, "return_type"))}
    out = {"type": t.out.get("type"), "returns": None,
           "params": collections.OrderedDict((k, dict(v)) for k, v in (t.out.get("params") or {}).items()
                                             if not invented_ok or k in ir["params"])}
    if _entry(t.out, "return_type") is not None and not (invented_ok and exp["returns"] is None):
        out["returns"] = {"return_type": dict(_entry(t.out, "return_type"))}
    for n, fields in free.items():
        pe, po = _entry(exp, n), _entry(out, n)
        if pe is None or po is None:
            continue
        for f in fields:
            pe.pop(f, None)
            if f in po:
                pe[f] = copy.deepcopy(po[f])
    return not fam_c03.same_interface_fn(exp, out, o["function_type"])


def gen_new_shape(rng):
    """an (ir, opts, tags) point with one of the shapes the proof of the docstring link found: prose with a line boundary
    other than the line feed inside (parameter, ** parameter, return entry); a type text that the :type / :rtype line does
    not carry (field token, line break, leading **), mostly with the types in the docstring; a summary that holds a
    Google / numpydoc section header above entries without prose"""
    import gen_ir
    import gen_text as G
    OD = collections.OrderedDict
    o = fam_c03.gen_opts(rng)
    if rng.random() < 0.85:
        o["emit_default_doc"] = False
    k = rng.random()
    if k < 0.7:
        ir, _ = gen_ir.gen_ir(rng, nparams=rng.choice([0, 0, 1, 2]), returns="none", kwargs=False, clean=True)
        for p in ir["params"].values():          # (a parameter without default is the class no-default-becomes-none)
            if "default" not in p:
                p["default"] = gen_ir.consistent_default(rng, p["typ"], ["value"])[1]
        ir["doc"] = G.clean_prose(rng, max_words=6)
        name = G.ident(rng)
        while name in ir["params"]:
            name = G.ident(rng)
        plain = {"doc": G.clean_prose(rng), "typ": "int", "default": 5}
    if k < 0.35:
        where = rng.random()
        doc = G.exotic_blank_prose(rng)
        if where < 0.6:
            typ = rng.choice(["int", "str", "float", "Optional[int]", "List[str]"])
            ir["params"][name] = {"doc": doc, "typ": typ, "default": gen_ir.consistent_default(rng, typ, ["value"])[1]}
            tags = ["exotic-blank-prose:param"]
        elif where < 0.75:
            ir["params"][name] = plain
            ir["params"]["kwargs"] = {"doc": doc, "typ": "Optional[dict]", "default": "```(None)```"}
            tags = ["exotic-blank-prose:kwargs"]
        else:
            ir["params"][name] = plain
            ir["returns"] = OD((("return_type", {"doc": doc, "typ": rng.choice(["int", "List[str]", "np.ndarray"])}),))
            tags = ["exotic-blank-prose:return"]
    elif k < 0.7:
        o["inline_types"] = rng.random() < 0.2
        shape = rng.choice(["token", "token", "line", "line", "kwargs"])
        typ = rng.choice({"token": TOKEN_TYPES, "line": BROKEN_LINE_TYPES, "kwargs": KWARGS_TYPES}[shape])
        if rng.random() < 0.75:
            ir["params"][name] = {"doc": G.clean_prose(rng), "typ": typ,
                                  "default": rng.choice([None, "```(None)```"] if shape != "line" or "Literal" in typ or "Optional" in typ
                                                        else ["```[1]```", "```{}```", "```x```"])}
            tags = ["type-text:%s:param" % shape]
        else:
            ir["params"][name] = plain
            ir["returns"] = OD((("return_type", {"doc": G.clean_prose(rng), "typ": typ}),))
            tags = ["type-text:%s:return" % shape]
    else:
        o["inline_types"] = rng.random() < 0.9
        ir = {"name": None, "type": "static", "doc": G.section_summary(rng), "params": OD(), "returns": None}
        for _ in range(rng.choice([0, 1, 1, 2])):
            typ = rng.choice(["int", "str", "float", "Optional[int]", "List[str]"])
            ir["params"][G.ident(rng)] = {"typ": typ, "default": gen_ir.consistent_default(rng, typ, ["value"])[1]}
        if rng.random() < 0.2:
            ir["returns"] = OD((("return_type", {"typ": rng.choice(["int", "List[str]"])}),))
        tags = ["section-summary"]
    ir = {"name": ir.get("name"), "type": ir.get("type"), "doc": ir.get("doc"),
          "params": OD((k_, dict(v)) for k_, v in ir["params"].items()),
          "returns": None if not ir.get("returns") else OD((("return_type", dict(ir["returns"]["return_type"])),))}
    return ir, o, tags


def _cls(resp):
    ce = loads(resp)
    if ce == "out-of-domain":
        return "out-of-domain"
    return None if ce == "none" else unhx(ce[1])


def oracle(rng, tier):
    n = 2500 if tier == "quick" else 40000
    pts = [fam_c03.gen_point(rng) for _ in range(n)]
    # stratum: the shapes that proofs found inside the first classifier's no-finding region
    pts += [gen_new_shape(rng) for _ in range(300 if tier == "quick" else 4000)]
    classes = []
    try:
        for ir, o, _ in pts:
            irwire.enc_ir(fam_c03.od(ir))
    except Exception:  # noqa
        pass
    classes = run_model(_class_requests(pts))
    infos = run_model(_class_requests(pts, "c03_new_classes"))
    failures, hist, seen, disagree = [], collections.Counter(), set(), []
    rel_reqs, rel_idx, rt_reqs, rt_idx, da_reqs, da_idx = [], [], [], [], [], []
    for k_pt, ((ir, o, tags), c, nw) in enumerate(zip(pts, classes, infos)):
        cls = _cls(c)
        case = {"ir": ir, "opts": o}
        stratum = "new-shapes:%s:" % tags[0] if k_pt >= n else ""
        if cls == "out-of-domain":
            hist[stratum + "out-of-domain"] += 1
            continue
        ok, what, t = fam_c03.round_trip(ir, o)
        if cls == "unmodelled":
            hist["skipped-unmodelled:" + ("holds" if ok else "fails")] += 1
            continue
        if not ok and cls in NEW_CLASSES:
            info = _new_info(nw)
            if not described_by_new_classes(ir, o, t, info):
                hist["not-described:" + cls] += 1
                what += " [not what the recorded class%s %s describe%s]" % (
                    "es" if len(info[0]) > 1 else "", ", ".join(info[0]), "" if len(info[0]) > 1 else "s")
                cls = None
        hist[stratum + ("holds" if ok else "fails") + ":" + (cls or "in-guard")] += 1
        if cls is None:
            seen.add(json.dumps(case, sort_keys=True, default=str))
        if not ok:
            failures.append({"case": case, "what": what, "class": cls})
        ow = fam_c03.opts_wire(o, t.pt)
        iw = irwire.enc_ir(fam_c03.od(ir))
        if t.out is not None:
            try:
                rel_reqs.append(dumps([Sym("c03_same_interface"), o["function_type"], iw, irwire.enc_ir(t.out)]))
                rel_idx.append((case, ok, what))
            except Exception:  # noqa
                hist["relation-not-encodable"] += 1
        if t.stage in ("done", "parse") and t.doc_ir is not None:
            try:
                rt_reqs.append(dumps([Sym("c03_round_trip")] + ow + [iw, t.tds, [Sym("some"), irwire.enc_ir(t.doc_ir)]]))
                rt_idx.append((case, dumps(t.wire_result())))
            except Exception:  # noqa
                hist["round-trip-not-encodable"] += 1
        if cls is None and _cls(c) is None:
            if t.doc_ir is None:
                failures.append({"case": case, "what": "inside the guard but no docstring-derived IR (stage %s)" % t.stage,
                                 "class": None})
            else:
                da_reqs.append(dumps([Sym("c03_doc_agrees")] + ow + [iw, irwire.enc_ir(t.doc_ir)]))
                da_idx.append(case)
    # (1) the Coq relations on the real output vs the Python comparison
    for (case, ok, what), r in zip(rel_idx, run_model(rel_reqs)):
        e = loads(r)
        coq_ok = isinstance(e, list) and all(x == "true" for x in e)
        if coq_ok != ok:
            disagree.append({"case": case, "coq_relation": r, "oracle_holds": ok, "what": what})
    # (2) the composed model vs the implementation
    for (case, impl_w), r in zip(rt_idx, run_model(rt_reqs)):
        m = canon(loads(r))
        if m == "(err Unmodelled)":
            hist["composed-model-unmodelled"] += 1
            continue
        if m != canon(loads(impl_w)):
            disagree.append({"case": case, "composed_model": r[:600], "implementation": impl_w[:600]})
    # (3) the docstring hypothesis on the real docstring-derived IR, inside the guard
    for case, r in zip(da_idx, run_model(da_reqs)):
        hist["doc_agrees:" + r] += 1
        if r != "true":
            failures.append({"case": case, "what": "inside the guard but doc_agrees is false of the real docstring-derived IR",
                             "class": None})
    return {
        "evaluations": len(pts),
        "distinct_nontrivial": len(seen),
        "rule": "descriptions from gen_ir (clean and general), single-parameter strata (type shape x prose shape x default "
                "kind), wider scalar values, return-entry strata, **kwargs strata, the shapes proofs found inside the first "
                "classifier's no-finding region (prose with a form feed / VT / CR / FS / GS / RS inside; type texts with a field "
                "token, a line break or a leading ** written into the docstring; a section-like summary above entries without "
                "prose); x kind {static, self, cls} x inline types "
                "x keyword-only x indent 0..2 x separating tab x default text x word wrap; real emit.function -> ast.unparse "
                "-> ast.parse -> parse.function; strict same_interface + kind + never raises; non-trivial = distinct point "
                "inside the guard",
        "failures": failures,
        "model_impl_property_disagreements": disagree,
        "histogram": dict(hist),
        "samples": [{"ir": pts[i][0], "opts": pts[i][1]} for i in range(0, min(len(pts), 40), 8)],
    }


def check_case(case):
    ok, what, _ = fam_c03.round_trip(case["ir"], case["opts"])
    return ok, what


if __name__ == "__main__":
    import random
    import sys
    res = oracle(random.Random(int(sys.argv[2]) if len(sys.argv) > 2 else 1), "quick" if len(sys.argv) < 2 or sys.argv[1] == "quick" else "thorough")
    print({k: v for k, v in res.items() if k in ("evaluations", "distinct_nontrivial")})
    for k, v in sorted(res["histogram"].items()):
        print("   %-60s %d" % (k, v))
    bad = [f for f in res["failures"] if f["class"] is None]
    print("   failures:", len(res["failures"]), " with class None:", len(bad), " disagreements:",
          len(res["model_impl_property_disagreements"]))
    lim = int(sys.argv[3]) if len(sys.argv) > 3 else 6
    for f in bad[:lim]:
        print("   VIOLATION", json.dumps(f, default=str)[:1200])
    for d in res["model_impl_property_disagreements"][:4]:
        print("   DISAGREE", json.dumps(d, default=str)[:1500])
