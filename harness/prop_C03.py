"""C03 — function / method round-trip fidelity.

Oracle: the real  emit.function(ir, "f", kind, inline_types, emit_as_kwonlyargs, indent_level 0..2, emit_separating_tab,
emit_default_doc, word_wrap) -> ast.unparse -> ast.parse -> parse.function  over interface descriptions from gen_ir
(clean and general), single-parameter strata (type shape x prose shape x default kind), wider scalar values, return-entry
strata and **kwargs strata, x kind {static, self, cls} x inline types x keyword-only x indent x separating tab x default
text x word wrap.  The parsed-back description is compared with the input (names and order with the ** parameter, types,
prose, defaults strictly - an absent default must stay absent, an explicit one keeps value and Python type with
None ~ "None" ~ NoneStr -, the return entry with its returned default expression, and the kind); an exception anywhere
is a failure ("never raises").  Every failure is classified by the extracted Coq function finding_class_C03
(coq/model/C03Spec.v), a function of the options and the input only; a failure whose class is None is a VIOLATION.

Cross-checks on every evaluated point: (1) the Coq relations same_interface_fn / kind_preserved applied to the real output
agree with the Python comparison; (2) the composed model round_trip_fn (EmitAst.emit_function -> reparse_stmt ->
ParseSig.parse_function, fed the recorded to_docstring text and docstring-derived IR) gives the very IR the implementation
gave; (3) for every point inside the guard the hypothesis doc_agrees of the composition theorems is evaluated by the Coq
function on the REAL docstring-derived IR and reported as a violation when false."""
import collections
import json

from common import Sym, dumps, loads, run_model, unhx, canon
import irwire
import fam_c03
import fam_emitast
import fam_parsesig

ID = "C03"
COQ_PROP = "C03"
import fam_docemit  # noqa: E402  (the function docstring is written by to_docstring / fill and read by the ReST parser)
import fam_docparse  # noqa: E402

FAMILIES = [(fam_emitast, 1500, 20000), (fam_parsesig, 1500, 20000), (fam_c03, 1200, 15000), (fam_docemit, 1000, 12000), (fam_docparse, 1000, 12000)]
TECHNIQUE = ("Coq proof (composition of the emit.function model, the unparse/re-parse step and the parse.function model, "
             "unbounded in the number of parameters: names/order, kind, **kwargs, positional vs keyword-only default "
             "alignment, inline annotations, defaults per value class, return entry; under guard_C03 and the named "
             "docstring hypothesis doc_agrees; refutation witness) + differential correspondence of the three models "
             "+ round-trip oracle on the real emitter/parser with an exact Coq classifier")
TRUSTED = [
    "the docstring layer is decoupled exactly as the models are: the emitter model takes the text to_docstring returned, the parser "
    "model takes the docstring-derived IR; the composition theorems assume doc_agrees (names/order/prose of the documented entries, "
    "types when written into the docstring), which is not proved for to_docstring's indented text here (C01 proves the ReST round "
    "trip for emit.docstring's text); the oracle evaluates doc_agrees on the real docstring-derived IR of every in-guard point",
    "C03Spec.reparse_stmt models ast.parse(ast.unparse(node)) on the emitted fragment (negative numeric constants become UnaryOp, "
    "Name(None) raises TypeError, the rest is a fixed point); validated by the c03 family, not proved",
    "ParseSig.show_expr / lit_eval model ast.unparse / ast.literal_eval; TyExpr models ast.parse on type strings; the parse table "
    "fo_pt carries what ast.parse makes of the code of a return default (recorded from the run)",
]


def _class_requests(pts):
    reqs = []
    for ir, o, _ in pts:
        pt = fam_c03.pt_of(fam_c03.od(ir))
        reqs.append(dumps([Sym("c03_class")] + fam_c03.opts_wire(o, pt) + [irwire.enc_ir(fam_c03.od(ir))]))
    return reqs


def _cls(resp):
    ce = loads(resp)
    if ce == "out-of-domain":
        return "out-of-domain"
    return None if ce == "none" else unhx(ce[1])


def oracle(rng, tier):
    n = 2500 if tier == "quick" else 40000
    pts = [fam_c03.gen_point(rng) for _ in range(n)]
    classes = []
    try:
        for ir, o, _ in pts:
            irwire.enc_ir(fam_c03.od(ir))
    except Exception:  # noqa
        pass
    classes = run_model(_class_requests(pts))
    failures, hist, seen, disagree = [], collections.Counter(), set(), []
    rel_reqs, rel_idx, rt_reqs, rt_idx, da_reqs, da_idx = [], [], [], [], [], []
    for (ir, o, tags), c in zip(pts, classes):
        cls = _cls(c)
        case = {"ir": ir, "opts": o}
        if cls == "out-of-domain":
            hist["out-of-domain"] += 1
            continue
        ok, what, t = fam_c03.round_trip(ir, o)
        if cls == "unmodelled":
            hist["skipped-unmodelled:" + ("holds" if ok else "fails")] += 1
            continue
        hist[("holds" if ok else "fails") + ":" + (cls or "in-guard")] += 1
        if cls is None:
            seen.add(json.dumps(case, sort_keys=True, default=str))
        if not ok:
            failures.append({"case": case, "what": what, "class": cls})
        ow = fam_c03.opts_wire(o, t.pt)
        iw = irwire.enc_ir(fam_c03.od(ir))
        if t.out is not None:
            try:
                rel_reqs.append(dumps([Sym("c03_same_interface"), o["function_type"], iw, irwire.enc_ir(t.out)]))
                rel_idx.append((case, ok, what))
            except Exception:  # noqa
                hist["relation-not-encodable"] += 1
        if t.stage in ("done", "parse") and t.doc_ir is not None:
            try:
                rt_reqs.append(dumps([Sym("c03_round_trip")] + ow + [iw, t.tds, [Sym("some"), irwire.enc_ir(t.doc_ir)]]))
                rt_idx.append((case, dumps(t.wire_result())))
            except Exception:  # noqa
                hist["round-trip-not-encodable"] += 1
        if cls is None:
            if t.doc_ir is None:
                failures.append({"case": case, "what": "inside the guard but no docstring-derived IR (stage %s)" % t.stage,
                                 "class": None})
            else:
                da_reqs.append(dumps([Sym("c03_doc_agrees")] + ow + [iw, irwire.enc_ir(t.doc_ir)]))
                da_idx.append(case)
    # (1) the Coq relations on the real output vs the Python comparison
    for (case, ok, what), r in zip(rel_idx, run_model(rel_reqs)):
        e = loads(r)
        coq_ok = isinstance(e, list) and all(x == "true" for x in e)
        if coq_ok != ok:
            disagree.append({"case": case, "coq_relation": r, "oracle_holds": ok, "what": what})
    # (2) the composed model vs the implementation
    for (case, impl_w), r in zip(rt_idx, run_model(rt_reqs)):
        m = canon(loads(r))
        if m == "(err Unmodelled)":
            hist["composed-model-unmodelled"] += 1
            continue
        if m != canon(loads(impl_w)):
            disagree.append({"case": case, "composed_model": r[:600], "implementation": impl_w[:600]})
    # (3) the docstring hypothesis on the real docstring-derived IR, inside the guard
    for case, r in zip(da_idx, run_model(da_reqs)):
        hist["doc_agrees:" + r] += 1
        if r != "true":
            failures.append({"case": case, "what": "inside the guard but doc_agrees is false of the real docstring-derived IR",
                             "class": None})
    return {
        "evaluations": len(pts),
        "distinct_nontrivial": len(seen),
        "rule": "descriptions from gen_ir (clean and general), single-parameter strata (type shape x prose shape x default "
                "kind), wider scalar values, return-entry strata, **kwargs strata; x kind {static, self, cls} x inline types "
                "x keyword-only x indent 0..2 x separating tab x default text x word wrap; real emit.function -> ast.unparse "
                "-> ast.parse -> parse.function; strict same_interface + kind + never raises; non-trivial = distinct point "
                "inside the guard",
        "failures": failures,
        "model_impl_property_disagreements": disagree,
        "histogram": dict(hist),
        "samples": [{"ir": pts[i][0], "opts": pts[i][1]} for i in range(0, min(len(pts), 40), 8)],
    }


def check_case(case):
    ok, what, _ = fam_c03.round_trip(case["ir"], case["opts"])
    return ok, what


if __name__ == "__main__":
    import random
    import sys
    res = oracle(random.Random(int(sys.argv[2]) if len(sys.argv) > 2 else 1), "quick" if len(sys.argv) < 2 or sys.argv[1] == "quick" else "thorough")
    print({k: v for k, v in res.items() if k in ("evaluations", "distinct_nontrivial")})
    for k, v in sorted(res["histogram"].items()):
        print("   %-60s %d" % (k, v))
    bad = [f for f in res["failures"] if f["class"] is None]
    print("   failures:", len(res["failures"]), " with class None:", len(bad), " disagreements:",
          len(res["model_impl_property_disagreements"]))
    lim = int(sys.argv[3]) if len(sys.argv) > 3 else 6
    for f in bad[:lim]:
        print("   VIOLATION", json.dumps(f, default=str)[:1200])
    for d in res["model_impl_property_disagreements"][:4]:
        print("   DISAGREE", json.dumps(d, default=str)[:1500])
