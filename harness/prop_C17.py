"""C17 — default values survive the trip through prose.  Oracle on the implementation + classification by the
extracted Coq guard (finding_class_C17)."""
import collections

from common import Sym, dumps, loads, opt, enc_pyval, impl, run_model, unhx
import gen_text as G
import fam_defaults

ID = "C17"
COQ_PROP = "C17"
FAMILIES = [(fam_defaults, 2500, 60000)]
TECHNIQUE = "Coq proof (guarded round-trip of extract_default over set_default_doc's sentence, unbounded in prose and value) + differential correspondence of Defaults.v against defaults_utils"
ANN = {"defaults-to": "Defaults to ", "defaults-to-nl": "Defaults to\n", "default-value-is": "Default value is ",
       "default-colon": "Default:"}
NONE_LIKE = (None, "None", "```(None)```")


def same_default(v, w):
    """v' is compared after the consumer's unquote (interpolate_defaults stores unquote(default))"""
    if isinstance(w, str):
        w = impl().pure_utils.unquote(w)
    if type(v) is type(w) and v == w:
        if isinstance(v, float):
            return repr(v) == repr(w)
        return True
    return v in NONE_LIKE and w in NONE_LIKE and not isinstance(v, (int, float)) and not isinstance(w, (int, float))


def gen_points(rng, n):
    pts = []
    for i in range(n):
        r = rng.random()
        v = G.value(rng)
        if rng.random() < 0.12:
            # degenerate str values: only blanks/tabs (separator, indent), only quote marks, only punctuation, padded
            # one-character tokens - under the str-like declared types and undeclared
            v = G.degenerate_str_value(rng)
        t = G.consistent_typ(rng, v)
        if r < 0.55:
            d = G.clean_prose(rng, terminal=rng.choice([".", ".", ","]))
        elif r < 0.85:
            d = G.prose(rng)
        else:
            d = rng.choice(["", "x", "x.", "Uses the default.", "the defaults.", "Default: 5.", "a, b.", "(x).",
                            "value defaults to 3.", "Sets the default: see docs."])
        a = rng.choice(list(ANN)) if rng.random() < 0.4 else "defaults-to"
        pts.append({"a": a, "d": d, "v": v, "t": t})
    return pts


def impl_holds(pt):
    """evaluate C17 at one point on the real code; returns (holds, what)"""
    m = impl()
    du, pu = m.defaults_utils, m.pure_utils
    a, d, v, t = pt["a"], pt["d"], pt["v"], pt["t"]
    try:
        if a == "defaults-to":
            p = {"doc": d, "default": v}
            if t is not None:
                p["typ"] = t
            line = du.set_default_doc(("x", p), emit_default_doc=True)[1]["doc"]
            expect_prefix = d + " Defaults to "
            if not line.startswith(expect_prefix):
                return False, "sentence not written as prose + ' Defaults to ' + value: %r" % line
        else:
            vv = None if v == "```(None)```" else v
            shown = pu.quote(vv) if isinstance(vv, (str, type(None))) and du.needs_quoting(t) else vv
            line = "{} {}{}".format(d, ANN[a], shown)
    except Exception as e:  # noqa
        return False, "writing the sentence raised %s" % type(e).__name__
    try:
        l1, v1 = du.extract_default(line, typ=t, emit_default_doc=True)
        l2, v2 = du.extract_default(line, typ=t, emit_default_doc=False)
    except Exception as e:  # noqa
        return False, "extract_default raised %s on %r" % (type(e).__name__, line)
    if l1 != line:
        return False, "line altered with emit_default_doc=True"
    if not same_default(v, v1) or not same_default(v, v2):
        return False, "value %r came back as %r / %r" % (v, v1, v2)
    if l2 != d:
        return False, "removal returned %r instead of %r" % (l2, d)
    return True, ""


# Letters outside ASCII, including ones whose lower/upper/case-folded form has a different length (sharp s, ligatures,
# dotted capital I, n-apostrophe, j-caron), ones that fold to an ASCII letter (long s, Kelvin sign), other scripts, and
# one outside the BMP.  The Coq model is ASCII-only, so prose over this alphabet is judged by a metamorphic relation.
NON_ASCII_LETTERS = ("\u00df\ufb01\ufb00\ufb03\u0130\u0149\u01f0\u0390\u017f\u212a\u00e9\u00fc\u00f1\u00f8\u00e7\u00c5\u00d6"
                     "\u03a9\u03bb\u03c2\u044f\u0416\u0131\u01c5\u1e9e\U0001d4b3\u4e2d")


def substitute_prose(rng, d, rate=None):
    """replace letters of the prose d (never blanks, digits or punctuation) char-for-char by non-ASCII letters; None when
    d has no letter"""
    idx = [i for i, c in enumerate(d) if c.isascii() and c.isalpha()]
    if not idx:
        return None
    rate = rate if rate is not None else rng.choice([0.05, 0.2, 0.5, 1.0])
    chosen = [i for i in idx if rng.random() < rate] or [rng.choice(idx)]
    out = list(d)
    for i in chosen:
        out[i] = rng.choice(NON_ASCII_LETTERS)
    return "".join(out)


def substituted_holds(pt):
    """metamorphic form of C17 at a point whose prose was substituted (pt["d"]) from ASCII prose (pt["d_ascii"]) on which
    the property holds: the characters of the prose outside the announcement and outside the value are not looked at,
    so the substituted point must behave as the image of the ASCII one: same sentence written after the prose, same
    default (value and type) extracted, line untouched with emit_default_doc=True, removal returns the substituted prose"""
    ok, what = impl_holds({k: pt[k] for k in ("a", "d", "v", "t")})
    return ok, (what and "prose %r substituted char-for-char from %r: %s" % (pt["d"], pt["d_ascii"], what))


def check_case(case):
    if "d_ascii" in case:
        return substituted_holds(case)
    if "a" in case:
        return impl_holds(case)
    return True, ""


def oracle(rng, tier):
    n = 1500 if tier == "quick" else 40000
    pts = gen_points(rng, n)
    reqs = [dumps([Sym("c17_class"), Sym(p["a"]), p["d"], enc_pyval(p["v"]), opt(p["t"])]) for p in pts]
    reqs2 = [dumps([Sym("c17_holds"), Sym(p["a"]), p["d"], enc_pyval(p["v"]), opt(p["t"])]) for p in pts]
    outs = run_model(reqs + reqs2)
    classes, mholds = outs[:len(pts)], outs[len(pts):]
    failures, hist, seen = [], collections.Counter(), set()
    disagree = []
    n_sub = 0
    for p, c, mh in zip(pts, classes, mholds):
        ce = loads(c)
        if ce == "out-of-domain":
            hist["out-of-domain"] += 1
            continue
        cls = None if ce == "none" else unhx(ce[1])
        ok, what = impl_holds(p)
        if cls == "unmodelled":
            hist["skipped-unmodelled:" + ("holds" if ok else "fails")] += 1
            continue
        hist[("holds" if ok else "fails") + ":" + (cls or "in-guard")] += 1
        key = dumps([p["a"], p["d"], enc_pyval(p["v"]), opt(p["t"])])
        if cls is None and p["d"] and key not in seen:
            seen.add(key)
        if mh != "unmodelled" and (mh == "true") != ok:
            disagree.append({"case": p, "model_holds": mh, "impl_holds": ok, "what": what, "class": cls})
        if not ok:
            failures.append({"case": p, "what": what, "class": cls})
        elif cls is None and rng.random() < 0.5:
            # (ii') the same point with letters of the prose replaced by non-ASCII letters (outside the model's alphabet)
            d2 = substitute_prose(rng, p["d"])
            if d2 is not None:
                q = dict(p, d=d2, d_ascii=p["d"])
                ok2, what2 = substituted_holds(q)
                n_sub += 1
                hist["non-ascii-prose:" + ("holds" if ok2 else "fails")] += 1
                if not ok2:
                    failures.append({"case": q, "what": what2, "class": None})
    # (iii) prose that announces nothing is never altered
    m = impl()
    n3 = 0
    lines = [G.prose(rng, spice=0.6) for _ in range(n // 3)] + [G.junk_line(rng, 30) for _ in range(n // 6)]
    na = run_model([dumps([Sym("c17_no_announce"), l]) for l in lines])
    for l, r in zip(lines, na):
        if r != "true":
            hist["no-announce:announces"] += 1
            continue
        n3 += 1
        hist["no-announce:checked"] += 1
        for typ in (None, "int", "str"):
            for emit in (True, False):
                for rs in (True, False):
                    try:
                        got = m.defaults_utils.extract_default(l, rstrip_default=rs, typ=typ, emit_default_doc=emit)
                    except Exception as e:  # noqa
                        got = ("raised", type(e).__name__)
                    if got != (l, None):
                        failures.append({"case": {"line": l, "typ": typ, "emit": emit, "rstrip": rs},
                                         "what": "prose without announcement altered: %r" % (got,), "class": None})
        for emit in (True, False):
            p = {"doc": l, "typ": "str"}
            try:
                got = m.defaults_utils.set_default_doc(("x", dict(p)), emit_default_doc=emit)[1]
            except Exception as e:  # noqa
                got = ("raised", type(e).__name__)
            if got != p:
                failures.append({"case": {"line": l, "emit": emit, "fn": "set_default_doc"},
                                 "what": "set_default_doc altered prose without default: %r" % (got,), "class": None})
    return {
        "evaluations": len(pts) + n3 + n_sub,
        "distinct_nontrivial": len(seen),
        "rule": "points (announce phrase, prose, value, declared type) from gen_text strata; non-trivial = distinct point "
                "inside the proved region (guard_C17) with non-empty prose; plus no-announcement lines x flag grid; plus in-guard "
                "points on which the property holds re-evaluated with letters of the prose replaced char-for-char by non-ASCII "
                "letters (metamorphic: same sentence, same default, removal returns the substituted prose)",
        "failures": failures,
        "model_impl_property_disagreements": disagree,
        "histogram": dict(hist),
        "samples": [pts[i] for i in range(0, min(len(pts), 40), 8)],
    }
