"""C17 — default values survive the trip through prose.  Oracle on the implementation + classification by the
extracted Coq guard (finding_class_C17)."""
import ast
import collections
import math

from common import Sym, dumps, loads, opt, enc_pyval, impl, run_model, unhx
import gen_text as G
import fam_defaults

ID = "C17"
COQ_PROP = "C17"
FAMILIES = [(fam_defaults, 2500, 60000)]
TECHNIQUE = "Coq proof (guarded round-trip of extract_default over set_default_doc's sentence, unbounded in prose and value) + differential correspondence of Defaults.v against defaults_utils"
ANN = {"defaults-to": "Defaults to ", "defaults-to-nl": "Defaults to\n", "default-value-is": "Default value is ",
       "default-colon": "Default:"}
NONE_LIKE = (None, "None", "```(None)```")


def same_default(v, w):
    """v' is compared after the consumer's unquote (interpolate_defaults stores unquote(default))"""
    if isinstance(w, str):
        w = impl().pure_utils.unquote(w)
    if type(v) is type(w) and v == w:
        if isinstance(v, float):
            return repr(v) == repr(w)
        return True
    return v in NONE_LIKE and w in NONE_LIKE and not isinstance(v, (int, float)) and not isinstance(w, (int, float))


def gen_points(rng, n):
    pts = []
    for i in range(n):
        r = rng.random()
        v = G.value(rng)
        if rng.random() < 0.12:
            # degenerate str values: only blanks/tabs (separator, indent), only quote marks, only punctuation, padded
            # one-character tokens - under the str-like declared types and undeclared
            v = G.degenerate_str_value(rng)
        t = G.consistent_typ(rng, v)
        if r < 0.55:
            d = G.clean_prose(rng, terminal=rng.choice([".", ".", ","]))
        elif r < 0.85:
            d = G.prose(rng)
        else:
            d = rng.choice(["", "x", "x.", "Uses the default.", "the defaults.", "Default: 5.", "a, b.", "(x).",
                            "value defaults to 3.", "Sets the default: see docs."])
        a = rng.choice(list(ANN)) if rng.random() < 0.4 else "defaults-to"
        pts.append({"a": a, "d": d, "v": v, "t": t})
    return pts


def impl_holds(pt):
    """evaluate C17 at one point on the real code; returns (holds, what)"""
    m = impl()
    du, pu = m.defaults_utils, m.pure_utils
    a, d, v, t = pt["a"], pt["d"], pt["v"], pt["t"]
    try:
        if a == "defaults-to":
            p = {"doc": d, "default": v}
            if t is not None:
                p["typ"] = t
            line = du.set_default_doc(("x", p), emit_default_doc=True)[1]["doc"]
            expect_prefix = d + " Defaults to "
            if not line.startswith(expect_prefix):
                return False, "sentence not written as prose + ' Defaults to ' + value: %r" % line
        else:
            vv = None if v == "```(None)```" else v
            shown = pu.quote(vv) if isinstance(vv, (str, type(None))) and du.needs_quoting(t) else vv
            line = "{} {}{}".format(d, ANN[a], shown)
    except Exception as e:  # noqa
        return False, "writing the sentence raised %s" % type(e).__name__
    try:
        l1, v1 = du.extract_default(line, typ=t, emit_default_doc=True)
        l2, v2 = du.extract_default(line, typ=t, emit_default_doc=False)
    except Exception as e:  # noqa
        return False, "extract_default raised %s on %r" % (type(e).__name__, line)
    if l1 != line:
        return False, "line altered with emit_default_doc=True"
    if not same_default(v, v1) or not same_default(v, v2):
        return False, "value %r came back as %r / %r" % (v, v1, v2)
    if l2 != d:
        return False, "removal returned %r instead of %r" % (l2, d)
    return True, ""


# Letters outside ASCII, including ones whose lower/upper/case-folded form has a different length (sharp s, ligatures,
# dotted capital I, n-apostrophe, j-caron), ones that fold to an ASCII letter (long s, Kelvin sign), other scripts, and
# one outside the BMP.  The Coq model is ASCII-only, so prose over this alphabet is judged by a metamorphic relation.
NON_ASCII_LETTERS = ("\u00df\ufb01\ufb00\ufb03\u0130\u0149\u01f0\u0390\u017f\u212a\u00e9\u00fc\u00f1\u00f8\u00e7\u00c5\u00d6"
                     "\u03a9\u03bb\u03c2\u044f\u0416\u0131\u01c5\u1e9e\U0001d4b3\u4e2d")


def substitute_prose(rng, d, rate=None):
    """replace letters of the prose d (never blanks, digits or punctuation) char-for-char by non-ASCII letters; None when
    d has no letter"""
    idx = [i for i, c in enumerate(d) if c.isascii() and c.isalpha()]
    if not idx:
        return None
    rate = rate if rate is not None else rng.choice([0.05, 0.2, 0.5, 1.0])
    chosen = [i for i in idx if rng.random() < rate] or [rng.choice(idx)]
    out = list(d)
    for i in chosen:
        out[i] = rng.choice(NON_ASCII_LETTERS)
    return "".join(out)


def substituted_holds(pt):
    """metamorphic form of C17 at a point whose prose was substituted (pt["d"]) from ASCII prose (pt["d_ascii"]) on which
    the property holds: the characters of the prose outside the announcement and outside the value are not looked at,
    so the substituted point must behave as the image of the ASCII one: same sentence written after the prose, same
    default (value and type) extracted, line untouched with emit_default_doc=True, removal returns the substituted prose"""
    ok, what = impl_holds({k: pt[k] for k in ("a", "d", "v", "t")})
    return ok, (what and "prose %r substituted char-for-char from %r: %s" % (pt["d"], pt["d_ascii"], what))


# ------------------------------------------------------------------ the argparse-help route
# A help text of a hand-written `add_argument` call is prose too, and parse.argparse_ast is a reader of it: the default
# announced there (with or without a `default=` keyword next to it, with or without `type=`) must be read back with the
# value and the Python type it was written with, and - when the reader removes the sentence (argparse_ast always does,
# unless a `default=` keyword made it skip the prose) - the surrounding prose must come back unchanged.
ARGPARSE_TEMPLATE = '''
def set_cli_args(argument_parser):
    """
    Set CLI arguments

    :param argument_parser: argument parser
    :type argument_parser: ```ArgumentParser```

    :returns: argument_parser
    :rtype: ```ArgumentParser```
    """
    argument_parser.description = {description!r}
{before}    argument_parser.add_argument({args})
{after}    return argument_parser
'''
# neighbouring arguments (their help texts announce nothing, so that a failure is always about the point's own argument)
ARGPARSE_NEIGHBOURS = ["    argument_parser.add_argument('--vg_other', type=int, help='Another one.', default=3)\n",
                       "    argument_parser.add_argument('--vg_flag', type=bool, help='A flag.', required=True)\n",
                       "    argument_parser.add_argument('--vg_name', help='The name.', default='anon')\n"]


def _type_kw(rng, v):
    """`type=` of the add_argument call: consistent with the value, or absent (argparse's implicit str)"""
    if isinstance(v, bool):
        return rng.choice(["bool", "bool", None])
    if isinstance(v, int):
        return rng.choice(["int", "int", "int", None])
    if isinstance(v, float):
        return rng.choice(["float", "float", "float", None])
    if isinstance(v, str) and not v.startswith("```"):
        return rng.choice(["str", None])
    return None


def _literal_ok(v):
    """can the value be written as the literal of a `default=` keyword?"""
    return not (isinstance(v, float) and (math.isinf(v) or math.isnan(v)))


def gen_argparse_points(rng, n):
    """points of the argparse-help route: the (phrase, prose, value) strata of gen_points; the sentence written as a human
    writes a help text (no declared type: bare words, bare numerals) or, less often, under the declared type (quoted
    strings); `type=` present or absent; a `default=` keyword next to the announcement or (mostly) not; sometimes
    `required=True`, neighbouring arguments before/after"""
    pts = []
    for p in gen_points(rng, n):
        v = p["v"]
        q = {"route": "argparse", "a": p["a"], "d": p["d"], "v": v,
             "t": p["t"] if rng.random() < 0.25 else None,
             "type_kw": _type_kw(rng, v),
             "default_kw": _literal_ok(v) and rng.random() < 0.25,
             "required": rng.random() < 0.15,
             "name": G.ident(rng) if rng.random() < 0.5 else "p",
             "before": rng.random() < 0.2, "after": rng.random() < 0.2}
        pts.append(q)
    return pts


def argparse_source(pt, line):
    args = [repr("--" + pt["name"])]
    if pt["type_kw"]:
        args.append("type=" + pt["type_kw"])
    args.append("help=" + repr(line))
    if pt["default_kw"]:
        args.append("default=" + repr(None if pt["v"] == "```(None)```" else pt["v"]))
    if pt["required"]:
        args.append("required=True")
    return ARGPARSE_TEMPLATE.format(description="Some description", args=", ".join(args),
                                    before=ARGPARSE_NEIGHBOURS[0] if pt["before"] else "",
                                    after=ARGPARSE_NEIGHBOURS[2] if pt["after"] else "")


def written_line(pt):
    """the prose with the default announced, as set_default_doc writes it (phrase 'Defaults to ') or as the other
    announcement phrases are written by hand; (line, None) or (None, what went wrong)"""
    m = impl()
    du, pu = m.defaults_utils, m.pure_utils
    a, d, v, t = pt["a"], pt["d"], pt["v"], pt["t"]
    try:
        if a == "defaults-to":
            p = {"doc": d, "default": v}
            if t is not None:
                p["typ"] = t
            line = du.set_default_doc(("x", p), emit_default_doc=True)[1]["doc"]
            if not line.startswith(d + " Defaults to "):
                return None, "sentence not written as prose + ' Defaults to ' + value: %r" % line
        else:
            vv = None if v == "```(None)```" else v
            shown = pu.quote(vv) if isinstance(vv, (str, type(None))) and du.needs_quoting(t) else vv
            line = "{} {}{}".format(d, ANN[a], shown)
    except Exception as e:  # noqa
        return None, "writing the sentence raised %s" % type(e).__name__
    return line, None


def argparse_holds(pt):
    """evaluate C17 at one point of the argparse-help route on the real code; returns (holds, what)"""
    m = impl()
    line, what = written_line(pt)
    if line is None:
        return False, what
    src = argparse_source(pt, line)
    try:
        fn = ast.parse(src).body[0]
    except SyntaxError as e:  # the harness wrote something unparsable: not a verdict about the code
        raise AssertionError("argparse route: harness source does not parse: %s" % e)
    try:
        ir = m.parse.argparse_ast(fn)
    except Exception as e:  # noqa
        return False, "parse.argparse_ast raised %s (%s) on help text %r%s" % (
            type(e).__name__, str(e)[:80], line, ", type=%s" % pt["type_kw"] if pt["type_kw"] else "")
    got = ir["params"].get(pt["name"])
    if got is None:
        return False, "argument %r not among the parameters read: %r" % (pt["name"], list(ir["params"]))
    if "default" not in got:
        return False, "no default read back from help text %r" % line
    if not same_default(pt["v"], got["default"]):
        return False, "value %r (%s) came back as %r (%s) from help text %r" % (
            pt["v"], type(pt["v"]).__name__, got["default"], type(got["default"]).__name__, line)
    if not pt["default_kw"] and got.get("doc") != pt["d"]:
        return False, "removal returned %r instead of %r" % (got.get("doc"), pt["d"])
    if pt["default_kw"] and got.get("doc") not in (pt["d"], line):
        return False, "help text %r came back as %r (neither kept nor the prose %r)" % (line, got.get("doc"), pt["d"])
    return True, ""


def check_case(case):
    if case.get("route") == "argparse":
        return argparse_holds(case)
    if "d_ascii" in case:
        return substituted_holds(case)
    if "a" in case:
        return impl_holds(case)
    return True, ""


def oracle(rng, tier):
    n = 1500 if tier == "quick" else 40000
    pts = gen_points(rng, n)
    reqs = [dumps([Sym("c17_class"), Sym(p["a"]), p["d"], enc_pyval(p["v"]), opt(p["t"])]) for p in pts]
    reqs2 = [dumps([Sym("c17_holds"), Sym(p["a"]), p["d"], enc_pyval(p["v"]), opt(p["t"])]) for p in pts]
    outs = run_model(reqs + reqs2)
    classes, mholds = outs[:len(pts)], outs[len(pts):]
    failures, hist, seen = [], collections.Counter(), set()
    disagree = []
    n_sub = 0
    for p, c, mh in zip(pts, classes, mholds):
        ce = loads(c)
        if ce == "out-of-domain":
            hist["out-of-domain"] += 1
            continue
        cls = None if ce == "none" else unhx(ce[1])
        ok, what = impl_holds(p)
        if cls == "unmodelled":
            hist["skipped-unmodelled:" + ("holds" if ok else "fails")] += 1
            continue
        hist[("holds" if ok else "fails") + ":" + (cls or "in-guard")] += 1
        key = dumps([p["a"], p["d"], enc_pyval(p["v"]), opt(p["t"])])
        if cls is None and p["d"] and key not in seen:
            seen.add(key)
        if mh != "unmodelled" and (mh == "true") != ok:
            disagree.append({"case": p, "model_holds": mh, "impl_holds": ok, "what": what, "class": cls})
        if not ok:
            failures.append({"case": p, "what": what, "class": cls})
        elif cls is None and rng.random() < 0.5:
            # (ii') the same point with letters of the prose replaced by non-ASCII letters (outside the model's alphabet)
            d2 = substitute_prose(rng, p["d"])
            if d2 is not None:
                q = dict(p, d=d2, d_ascii=p["d"])
                ok2, what2 = substituted_holds(q)
                n_sub += 1
                hist["non-ascii-prose:" + ("holds" if ok2 else "fails")] += 1
                if not ok2:
                    failures.append({"case": q, "what": what2, "class": None})
    # (iii) prose that announces nothing is never altered
    m = impl()
    n3 = 0
    lines = [G.prose(rng, spice=0.6) for _ in range(n // 3)] + [G.junk_line(rng, 30) for _ in range(n // 6)]
    na = run_model([dumps([Sym("c17_no_announce"), l]) for l in lines])
    for l, r in zip(lines, na):
        if r != "true":
            hist["no-announce:announces"] += 1
            continue
        n3 += 1
        hist["no-announce:checked"] += 1
        for typ in (None, "int", "str"):
            for emit in (True, False):
                for rs in (True, False):
                    try:
                        got = m.defaults_utils.extract_default(l, rstrip_default=rs, typ=typ, emit_default_doc=emit)
                    except Exception as e:  # noqa
                        got = ("raised", type(e).__name__)
                    if got != (l, None):
                        failures.append({"case": {"line": l, "typ": typ, "emit": emit, "rstrip": rs},
                                         "what": "prose without announcement altered: %r" % (got,), "class": None})
        for emit in (True, False):
            p = {"doc": l, "typ": "str"}
            try:
                got = m.defaults_utils.set_default_doc(("x", dict(p)), emit_default_doc=emit)[1]
            except Exception as e:  # noqa
                got = ("raised", type(e).__name__)
            if got != p:
                failures.append({"case": {"line": l, "emit": emit, "fn": "set_default_doc"},
                                 "what": "set_default_doc altered prose without default: %r" % (got,), "class": None})
    # (iv) the argparse-help route: the same strata of (phrase, prose, value), the announcement sitting in the help text
    # of an add_argument call read by parse.argparse_ast.  That reader hands no declared type to the extractor, so a
    # point is classified as the undeclared point (phrase, prose, value, None) of the Coq classifier.
    apts = gen_argparse_points(rng, 700 if tier == "quick" else 12000)
    acls = run_model([dumps([Sym("c17_class"), Sym(p["a"]), p["d"], enc_pyval(p["v"]), opt(None)]) for p in apts])
    n4 = 0
    for p, c in zip(apts, acls):
        ce = loads(c)
        if ce == "out-of-domain":
            hist["argparse-help:out-of-domain"] += 1
            continue
        cls = None if ce == "none" else unhx(ce[1])
        if cls == "unmodelled":
            hist["argparse-help:skipped-unmodelled"] += 1
            continue
        ok, what = argparse_holds(p)
        n4 += 1
        shape = "%s,%s,%s" % ("default-kw" if p["default_kw"] else "help-only",
                              "type=" + p["type_kw"] if p["type_kw"] else "no-type",
                              "typed-sentence" if p["t"] is not None else "bare-sentence")
        hist["argparse-help:%s:%s" % ("holds" if ok else "fails", cls or "in-guard")] += 1
        hist["argparse-help-shape:" + shape] += 1
        if ok and cls is None and p["d"]:
            seen.add(dumps(["argparse", p["a"], p["d"], enc_pyval(p["v"]), opt(p["t"]), opt(p["type_kw"]), p["default_kw"]]))
        if not ok:
            failures.append({"case": p, "what": what, "class": cls})
    return {
        "evaluations": len(pts) + n3 + n_sub + n4,
        "distinct_nontrivial": len(seen),
        "rule": "points (announce phrase, prose, value, declared type) from gen_text strata; non-trivial = distinct point "
                "inside the proved region (guard_C17) with non-empty prose; plus no-announcement lines x flag grid; plus in-guard "
                "points on which the property holds re-evaluated with letters of the prose replaced char-for-char by non-ASCII "
                "letters (metamorphic: same sentence, same default, removal returns the substituted prose); plus the argparse-help "
                "route (the announcement in the help text of an add_argument call, with/without default=, with/without type=, "
                "read by parse.argparse_ast; classified as the undeclared point)",
        "failures": failures,
        "model_impl_property_disagreements": disagree,
        "histogram": dict(hist),
        "samples": [pts[i] for i in range(0, min(len(pts), 40), 8)],
    }
