"""C15 - dotted locations address exactly one node, the right one.

Oracle on the implementation: for generated modules, every location that exists plus a sample that do not,
  (find)    doctrans.ast_utils.find_in_ast(q, ast_parse(src))  IS  gen_module.resolve(q, tree)  (same object, or both None)
  (replace) RewriteAtQuery(q, r).visit(tree) sets `replaced` iff the location exists, the node at the resolved
            tree position is a new object, and every other node is unchanged (the tree dumps equal with that
            position masked)
  (sync)    the user of both operations, sync_properties, asked to copy one location of a module onto another location of
            the SAME file (find at the first, replace at the second, template on/off): the file afterwards parses and its
            tree equals the original with the second location's position masked - replaced once, no other node, the node the
            value was read from included.  Calls inside guard_C14 are judged, and calls that C14 puts aside only because an
            address falls in a C15 class (judged under that class; C14's other classes belong to C14).  A class that says
            "nothing is replaced" (ONLY_KINDS) covers the refusal only: a silent change of some other node is a violation.
Failures are classified by the executable Coq guard's complement (finding_class_C15 / rw_finding_class_C15,
asked through the driver); class None means the point is inside the proved region: a violation."""
import ast
import collections
import copy

from common import Sym, dumps, loads, impl, run_model, unhx
import astwire
import gen_module as GM
import fam_locate
from fam_locate import paths, SPECIAL, EXTRA_SEGS

ID = "C15"
COQ_PROP = "C15"
FAMILIES = [(fam_locate, 3000, 40000)]
TECHNIQUE = ("Coq proofs over a transcription of annotate_ancestry/find_in_ast/RewriteAtQuery (refutation of the full "
             "statement by witnesses; guarded equality find_in_ast = resolve by induction over modules of any size; frame "
             "theorem of RewriteAtQuery by induction on the tree) + differential correspondence of Locate.v (node identity, "
             "annotated trees, rewritten trees) + oracle against the independent resolver gen_module.resolve")
TRUSTED = [
    "Locate.v is a hand transcription of ast_utils.annotate_ancestry/find_in_ast/RewriteAtQuery/emit_arg/get_value/set_arg, tied to the code by the `locate` family (node identity and annotated-tree comparison)",
    "the _location that annotate_ancestry gives to Constant nodes is not modelled; rewrites whose last segment could equal a string constant outside a FunctionDef are declined (const_hazard)",
    "statements whose class has a `name` that PyAst keeps only as text (AsyncFunctionDef, Try handlers, Match, TypeAlias, FunctionDef with positional-only args, ClassDef with keywords) are declined (supported)",
    "PEP 695 type parameters are invisible to astwire (not generated)",
    "Coq resolve is compared with harness/gen_module.py:resolve by the `locate` family (fn resolve)",
]


# ------------------------------------------------------------------ helpers
def dump_masked(node, masked):
    """structural dump over _fields (no positions, no _location), objects whose id is in `masked` shown as MASK"""
    if id(node) in masked:
        return "MASK"
    if isinstance(node, ast.AST):
        return "%s(%s)" % (type(node).__name__, ", ".join(
            "%s=%s" % (f, dump_masked(getattr(node, f, None), masked)) for f in node._fields))
    if isinstance(node, list):
        return "[%s]" % ", ".join(dump_masked(x, masked) for x in node)
    return repr(node)


def gen_points(rng, tier):
    st = impl().source_transformer
    n_mod = 140 if tier == "quick" else 1800
    pts = []
    for i in range(n_mod):
        if rng.random() < 0.1:
            src = rng.choice(SPECIAL)
        elif rng.random() < 0.15:
            # three classes deep, a nested scope repeating an EARLIER one (same class / member names)
            src, _kind = fam_locate.deep_module(rng)
        elif rng.random() < 0.1:
            # a class of the module built once more as a local class of an EARLIER function (not a location itself)
            src, _kind = fam_locate.local_module(rng, tier)
        else:
            # a third of the modules also carry imports (module level and class bodies) that mention pool names
            src = GM.gen_module(rng, depth=rng.choice([1, 2, 3, 3]), max_items=rng.choice([4, 6, 8]),
                                shadow_imports=rng.choice([0.0, 0.0, 0.15, 0.3]))
        tree = st.ast_parse(src)
        locs = [p for p, _ in GM.all_locations(tree)]
        qs = [(list(p), "existing") for p in locs]
        for _ in range(max(4, len(locs) // 3)):
            r = rng.random()
            if locs and r < 0.7:
                q = list(rng.choice(locs))
                op = rng.choice(["drop-head", "append", "replace-last", "swap", "prepend"])
                if op == "drop-head":
                    q = q[1:]
                elif op == "append":
                    q = q + [rng.choice(EXTRA_SEGS)]
                elif op == "replace-last":
                    q[-1] = rng.choice(EXTRA_SEGS)
                elif op == "swap" and len(q) >= 2:
                    q[-1], q[-2] = q[-2], q[-1]
                else:
                    q = [rng.choice(EXTRA_SEGS)] + q
            else:
                q = [rng.choice(EXTRA_SEGS) for _ in range(rng.choice([1, 2, 2, 3]))]
            if q and GM.resolve(q, tree) is None:
                qs.append((q, "non-existing"))
        for q, kind in qs:
            pts.append({"src": src, "q": q, "kind": kind, "check": "find"})
            if kind == "non-existing" or rng.random() < 0.5:
                pts.append({"src": src, "q": q, "kind": kind, "check": "replace"})
    return pts


def find_holds(pt):
    m = impl()
    tree = m.source_transformer.ast_parse(pt["src"])
    expected = GM.resolve(pt["q"], tree)
    try:
        got = m.ast_utils.find_in_ast(copy.deepcopy(pt["q"]), tree)
    except Exception as e:  # noqa
        return False, "find_in_ast raised %s" % type(e).__name__
    if got is expected:
        return True, ""

    def show(n):
        if n is None:
            return "None"
        return "%s %s at line %s" % (type(n).__name__, getattr(n, "name", getattr(n, "arg", "")), getattr(n, "lineno", "?"))
    return False, "find_in_ast returned %s, the location is %s" % (show(got), show(expected))


def replace_holds(pt):
    return replace_judge(pt)[:2]


def replace_judge(pt):
    """-> (holds, what, kind of failure)"""
    ok, what = _replace_holds(pt)
    kind = None if ok else ("nothing-replaced" if what.startswith("location exists") else
                            "raised" if what.startswith("RewriteAtQuery raised") else "wrong-replacement")
    return ok, what, kind


def _replace_holds(pt):
    m = impl()
    tree = m.source_transformer.ast_parse(pt["src"])
    q = pt["q"]
    target = GM.resolve(q, tree)
    pos, _, _keep = paths(tree, [])
    parent = GM.resolve(q[:-1], tree) if len(q) > 1 else None
    if isinstance(target, ast.arg) or (target is None and isinstance(parent, ast.FunctionDef)):
        repl = ast.arg(arg="ZZ_new", annotation=None)
    else:
        repl = ast.parse("ZZ_new: int = 0").body[0]
    before_all = dump_masked(tree, set())
    before_masked = dump_masked(tree, {id(target)}) if target is not None else before_all
    v = m.ast_utils.RewriteAtQuery(copy.deepcopy(q), repl)
    try:
        g = v.visit(tree)
    except Exception as e:  # noqa
        return False, "RewriteAtQuery raised %s" % type(e).__name__
    if target is None:
        if v.replaced:
            return False, "location does not exist but a node was replaced"
        if dump_masked(g, set()) != before_all:
            return False, "location does not exist, nothing reported replaced, yet the tree changed"
        return True, ""
    if not v.replaced:
        return False, "location exists (%s) but nothing was replaced" % type(target).__name__
    if not isinstance(g, ast.Module):
        return False, "visit did not return the module"
    _, inv2, _k2 = paths(g, [])
    new = inv2.get(tuple(pos[id(target)]))
    if new is None or new is target:
        return False, "a node was replaced, but not the one at the location"
    if dump_masked(g, {id(new)}) != before_masked:
        return False, "the node at the location was replaced and something else changed too"
    return True, ""


def gen_sync_points(rng, tier):
    """one module, an existing leaf location to read and an existing leaf location of the same kind to replace"""
    import fam_syncprops as SP
    n = 260 if tier == "quick" else 2500
    pts = []
    while len(pts) < n:
        r = rng.random()
        deep = False
        if r < 0.3:
            src = rng.choice(SP.SP_INPUTS + SP.SP_OUTPUTS)
        elif r < 0.55:
            # a location three or more segments deep to replace at, in a module whose nested scopes repeat earlier ones;
            # the value is read from a location at most two segments deep
            src, _kind = fam_locate.deep_module(rng)
            deep = True
        elif r < 0.65:
            src, _kind = fam_locate.local_module(rng, tier)
        else:
            src = GM.gen_module(rng, depth=rng.choice([1, 2, 2, 3]), max_items=rng.choice([4, 6, 8]))
        tree = ast.parse(src)
        args, stmts = SP._leaf_locs(tree, kind="arg"), SP._leaf_locs(tree, kind="stmt")
        anns = [".".join(p) for p, nd in GM.all_locations(tree) if isinstance(nd, ast.AnnAssign)]
        for _ in range(3):
            pools = [(a, b) for a, b in ((args + anns, args), (anns or stmts, stmts)) if a and b]
            if deep:
                shallow = lambda l: [q for q in l if q.count(".") <= 1]  # noqa: E731
                far = lambda l: [q for q in l if q.count(".") >= 2]  # noqa: E731
                pools = [(a, b) for a, b in ((shallow(args + anns), far(args)), (shallow(anns or stmts), far(stmts))) if a and b] \
                    or pools
            if not pools:
                break
            ipool, opool = rng.choice(pools)
            ip, op = rng.choice(ipool), rng.choice(opool)
            wrap = rng.choice(SP.WRAPS[:3]) if rng.random() < 0.65 else None
            pts.append({"src": src, "q": op.split("."), "kind": "existing", "check": "sync", "ip": ip, "op": op,
                        "wrap": wrap})
    return pts[:n]


def _sync_args(pt):
    return [False, pt["src"], [pt["ip"]], pt["src"], [pt["op"]], pt["wrap"], True]


def sync_holds(pt):
    import prop_C14      # (prop_C14 imports this module: import at call time)
    ok, what, _kind = prop_C14.impl_judge({"args": _sync_args(pt)})
    return ok, what


def sync_judge(pt):
    """-> (holds, what, kind of failure as prop_C14 names it)"""
    import prop_C14
    return prop_C14.impl_judge({"args": _sync_args(pt)})


def impl_holds(pt):
    if pt["check"] == "sync":
        return sync_holds(pt)
    return find_holds(pt) if pt["check"] == "find" else replace_holds(pt)


def impl_judge(pt):
    if pt["check"] == "sync":
        return sync_judge(pt)
    if pt["check"] == "replace":
        return replace_judge(pt)
    return find_holds(pt) + (None,)


# A recorded class stands for the failure it describes.  Two rewrite classes say that NOTHING is replaced (no visited node
# carries the location; the location names a function): the call is refused - RewriteAtQuery leaves `replaced` unset,
# sync_properties raises and writes nothing.  A failure of another kind at such a location (some node WAS replaced: not
# the addressed one, or something besides it) is not what they describe: the property demands an error and no silent
# change of another node, so it is a violation whatever class the location falls in.
ONLY_KINDS = {
    "rewrite-location-not-reached": {"nothing-replaced", "raised-nothing-written"},
    "rewrite-function-not-replaceable": {"nothing-replaced", "raised-nothing-written"},
}
# C14's classes that say "the address falls in a C15 class": such a sync point is judged here under the C15 class
C14_ADDRESS_CLASSES = {"output-address-not-hit": "rw", "input-address-misresolved": "find"}


def check_case(case):
    if "check" in case:
        return impl_holds(case)
    return True, ""


def oracle(rng, tier):
    st = impl().source_transformer
    pts = gen_points(rng, tier)
    plain = {}

    def wire(src):
        if src not in plain:
            plain[src] = astwire.enc_module(st.ast_parse(src))
        return plain[src]

    import fam_syncprops
    pts = pts + gen_sync_points(rng, tier)
    reqs, reqs2, reqs3 = [], [], []
    for p in pts:
        if p["check"] == "sync":
            w = fam_syncprops.wire_args(_sync_args(p))
            reqs.append(dumps([Sym("c14_class")] + w))
            reqs2.append(dumps([Sym("c14_holds")] + w))
            # the C15 classes of the two addresses (replace at `op`, find at `ip`)
            p["_x"] = len(reqs3)
            reqs3.append(dumps([Sym("c15_rw_class"), [x.strip() for x in p["op"].split(".")], wire(p["src"])]))
            reqs3.append(dumps([Sym("c15_class"), [x.strip() for x in p["ip"].split(".")], wire(p["src"])]))
            continue
        fn = "c15_class" if p["check"] == "find" else "c15_rw_class"
        reqs.append(dumps([Sym(fn), list(p["q"]), wire(p["src"])]))
        reqs2.append(dumps([Sym("c15_holds"), list(p["q"]), wire(p["src"])]))
    outs = run_model(reqs + reqs2 + reqs3)
    classes, mholds, extra = outs[:len(pts)], outs[len(pts):2 * len(pts)], outs[2 * len(pts):]
    failures, hist, seen, disagree = [], collections.Counter(), set(), []
    n_eval = 0
    import prop_C14
    for p, c, mh in zip(pts, classes, mholds):
        x = p.pop("_x", None)
        if c == "unsupported":
            hist["skipped-unsupported-module"] += 1
            continue
        if p["check"] == "sync" and c != "none":
            # out of C14's domain, or in one of C14's own finding classes (they are C14's to report): not judged here.
            # Where C14's class only says that an address falls in a C15 class (a location the code refuses or gets
            # wrong), the call is judged under that C15 class: refused means an error and an untouched file.
            ce = loads(c) if c != "out-of-domain" else None
            c14 = unhx(ce[1]) if isinstance(ce, list) and len(ce) == 2 else None
            which = C14_ADDRESS_CLASSES.get(c14)
            e15 = extra[x + (0 if which == "rw" else 1)] if which and x is not None else "unsupported"
            e15 = loads(e15) if e15 not in ("unsupported", "none") else None
            if not isinstance(e15, list):
                hist["sync:outside-guard_C14"] += 1
                continue
            c = dumps([Sym("some"), Sym(e15[1])])
        ce = loads(c)
        cls = None if ce == "none" else unhx(ce[1])
        ok, what, kind = impl_judge(p)
        n_eval += 1
        if not ok and cls is not None:
            if (cls in ONLY_KINDS and kind not in ONLY_KINDS[cls]) or (p["check"] == "sync" and kind in prop_C14.NEVER_ABSORBED):
                hist["not-absorbed:%s:%s:%s" % (p["check"], cls, kind)] += 1
                what += " [a failure of this kind is not what the recorded class %s describes]" % cls
                cls = None
        hist["%s:%s:%s:%s" % (p["check"], p["kind"], "holds" if ok else "fails", cls or "in-guard")] += 1
        if cls is None and len(p["q"]) >= 1:
            seen.add((p["src"], tuple(p["q"]), p["check"]))
        if p["check"] in ("find", "sync") and mh in ("true", "false") and (mh == "true") != ok:
            disagree.append({"case": p, "model_holds": mh, "impl_holds": ok, "what": what, "class": cls})
        if not ok:
            failures.append({"case": p, "what": what, "class": cls})
    return {
        "evaluations": n_eval,
        "distinct_nontrivial": len(seen),
        "rule": "generated modules (depth <= 3, repeated names, functions before/after classes) x every existing location + "
                "perturbed/random non-existing ones; find judged by object identity against gen_module.resolve; replace judged "
                "by position + masked dump; sync: sync_properties from one location onto another of the same file (inside "
                "guard_C14, and where the address falls in a C15 class under that class), judged by the masked dump of the "
                "file; modules with and without imports that mention pool names; modules three classes deep in which a "
                "nested scope repeats an EARLIER one (same class and member names), locations of three and more segments "
                "replaced at through sync_properties: where the code refuses the location, an error and an untouched file "
                "are demanded; non-trivial = distinct (module, location, check) inside the proved region",
        "failures": failures,
        "model_impl_property_disagreements": disagree,
        "histogram": dict(hist),
        "samples": [pts[i] for i in range(0, min(len(pts), 60), 12)],
    }
