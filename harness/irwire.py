"""IR dicts <-> the wire form of coq/model/IR.v."""
import ast
from collections import OrderedDict

from common import Sym, opt, enc_pyval, dec_pyval, unhx
import astwire


def fld(d, k, enc=lambda v: v):
    if d is None or k not in d:
        return Sym("missing")
    if d[k] is None:
        return Sym("none")
    return [Sym("has"), enc(d[k])]


def enc_dval(v):
    if v is None or isinstance(v, (bool, int, float, str)):
        return [Sym("dv"), enc_pyval(v)]
    if isinstance(v, ast.AST):
        return [Sym("de"), astwire.enc_expr(v)]
    return [Sym("do"), repr(v)]


def enc_gparam(p):
    return [fld(p, "doc"), fld(p, "typ"), [Sym("some"), enc_dval(p["default"])] if "default" in p else Sym("none")]


def enc_returns(ir):
    if "returns" not in ir:
        return Sym("missing")
    r = ir["returns"]
    if r is None:
        return Sym("none")
    if "return_type" in r:
        return [Sym("has"), enc_gparam(r["return_type"])]
    return Sym("none") if not r else [Sym("has"), enc_gparam(next(iter(r.values())))]


def enc_internal(i):
    return [[astwire.enc_stmt(s) for s in i.get("body", [])], fld(i, "from_name"), fld(i, "from_type")]


def enc_ir(ir):
    return [fld(ir, "name"), fld(ir, "type"), fld(ir, "doc"),
            [[k, enc_gparam(v)] for k, v in (ir.get("params") or {}).items()],
            enc_returns(ir),
            [Sym("some"), enc_internal(ir["_internal"])] if ir.get("_internal") else Sym("none")]


def _dec_fld(e, dec=unhx):
    if e == "missing":
        return ("missing", None)
    if e == "none":
        return ("none", None)
    return ("has", dec(e[1]))


def dec_gparam(e):
    """wire -> dict (scalar defaults only)"""
    p = {}
    for k, x in (("doc", e[0]), ("typ", e[1])):
        st, v = _dec_fld(x)
        if st != "missing":
            p[k] = v
    if e[2] != "none":
        d = e[2][1]
        assert d[0] == "dv", d
        p["default"] = dec_pyval(d[1])
    return p


def dec_ir(e):
    ir = {}
    for k, x in (("name", e[0]), ("type", e[1]), ("doc", e[2])):
        st, v = _dec_fld(x)
        if st != "missing":
            ir[k] = v
    ir["params"] = OrderedDict((unhx(k), dec_gparam(v)) for k, v in e[3])
    st, v = _dec_fld(e[4], dec_gparam)
    if st == "none":
        ir["returns"] = None
    elif st == "has":
        ir["returns"] = OrderedDict((("return_type", v),))
    return ir
