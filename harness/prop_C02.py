"""C02 - config-class round-trip fidelity (composed from the emit-side layer EmitAst, the parse-side layer ParseAst
and the ReST docstring layers of C01).

Oracle: real  emit.class_ -> ast.unparse -> ast.parse -> parse.class_  on generated interface descriptions x default
text on/off x word-wrap on/off, compared with same_interface after the permitted zero-value normalisation.  Every
failure is classified by the executable Coq classifier C02Spec.finding_class_C02 (through the driver); a failure the
classifier does not name is a violation.  Points outside C02_domain (names that are not distinct identifiers) and
points whose defaults are not scalars (class `unmodelled`) are skipped."""
import fam_parseast
import fam_emitast

ID = "C02"
COQ_PROP = "C02"
import fam_docemit  # noqa: E402  (the class docstring is written by to_docstring / fill and read by the ReST parser)
import fam_docparse  # noqa: E402

FAMILIES = [(fam_parseast, 2000, 30000), (fam_emitast, 2000, 30000), (fam_docemit, 1200, 15000), (fam_docparse, 1000, 15000)]
TECHNIQUE = ("Coq proof of the AST-level codec parse_class d (emit_class ir) under the named docstring hypothesis doc_agrees ir d: "
             "names/order/return presence for every IR of the domain whatever types and defaults are (C02_names_order); inside "
             "guard_C02_ast the parser returns the closed form norm_C02 ir, same_interface_strict to zero_default_norm ir -- types "
             "(TyExpr round trip), prose, defaults absent/None/int/float/bool/str with the zero-value normalisation, return entry "
             "(C02_partial); unbounded in the number of parameters; ~ C02_ast_statement with one computed witness per AST-visible "
             "finding class + differential correspondence of the EmitAst and ParseAst models + round-trip oracle on the real "
             "emitter/parser classified by finding_class_C02 + audit of the theorem's guard on the real code")
TRUSTED = [
    "modelled, not verified: ast.unparse followed by ast.parse is the identity on the emitted tree (hypothesis R1; the oracle "
    "runs the real unparse/parse on every point)",
    "the docstring layer is decoupled: the theorems quantify over the IR d the ReST parser returns for the class docstring under "
    "the named hypothesis doc_agrees (the entries that have prose, return entry folded in as return_type, in order, with their "
    "prose; returns None) -- what C01's ReST theorem provides for emit_types off; that doc_agrees follows from the DocEmit / "
    "DocParse models for the class docstring (the :param -> :cvar -> :param rewriting, indent level 1, default sentences written "
    "and removed) is NOT proved: it is covered by correspondence, by the oracle and by the docstring-level classes of "
    "finding_class_C02",
    "ast.parse on type strings is the TyExpr model (parse_ty / ty2expr); strings outside its canonical fragment, code-quoted "
    "defaults and return defaults go through a recorded parse table in correspondence and are outside guard_C02_ast",
    "finding_class_C02 (the partition of the failures of the real code) is validated by the oracle on every run, not proved "
    "complete; the proof found one failure it does not name (float default -0.0 comes back 0.0: theorem "
    "C02_negative_zero_unclassified); guard_C02_ast covers about 86% of the generated points the classifier leaves unflagged",
]


def _theorem_guard_audit(rng, n):
    """points inside guard_C02_ast (the sub-domain of theorem C02_partial) that the classifier does not flag: the real round
    trip must hold and the parsed-back description must be same_interface_strict to zero_default_norm of the input (the
    relation the theorem proves).  Needs the family run_c02compose of model/C02Codec.v in the driver; skipped otherwise."""
    from common import Sym, dumps, loads, run_model
    import irwire
    F = fam_parseast
    pts = [F.gen_point(rng, "class") for _ in range(n)]
    enc = [irwire.enc_ir(F._od(ir)) for ir, _, _ in pts]
    g = run_model([dumps([Sym("c02_ast_check"), e, o["word_wrap"], False, o["word_wrap"]]) for e, (_, o, _) in zip(enc, pts)])
    if any(r == "bad-request" for r in g[:1]):
        return {"theorem-guard:family-not-in-driver": 1}, []
    cls = run_model([dumps([Sym("c02_class"), o["emit_default_doc"], o["word_wrap"], e]) for e, (_, o, _) in zip(enc, pts)])
    hist, failures, rel_reqs, rel_cases = {"theorem-guard:inside": 0, "theorem-guard:points": n}, [], [], []
    for (ir, o, _), a, c in zip(pts, g, cls):
        ga = loads(a)
        if ga[0] != "true":
            continue
        hist["theorem-guard:inside"] += 1
        if ga[2] != ["some", "true"]:
            failures.append({"case": {"kind": "class", "ir": ir, "opts": o}, "class": None,
                             "what": "model: guard_C02_ast holds but the composed model round trip does not (%r)" % (ga,)})
        if loads(c) != "none":
            continue        # a docstring-level finding class: outside the AST-level theorem
        case = {"kind": "class", "ir": ir, "opts": o}
        ok, what, out = F.round_trip("class", ir, o)
        if not ok:
            failures.append({"case": case, "what": "inside guard_C02_ast and unclassified, yet: " + what, "class": None})
        elif out is not None:
            rel_reqs.append(dumps([Sym("same_interface_norm_strict"), irwire.enc_ir(F._od(ir)), irwire.enc_ir(out)]))
            rel_cases.append(case)
    for case, r in zip(rel_cases, run_model(rel_reqs)):
        if r != "true":
            failures.append({"case": case, "class": None,
                             "what": "inside guard_C02_ast: parsed-back description is not same_interface_strict to the "
                                     "zero-normalised input (%s)" % r})
    hist["theorem-guard:strict-relation-checked"] = len(rel_cases)
    return hist, failures


def oracle(rng, tier):
    n = 3000 if tier == "quick" else 40000
    res = fam_parseast.oracle_class(rng, n)
    hist, failures = _theorem_guard_audit(rng, 600 if tier == "quick" else 8000)
    res["histogram"].update(hist)
    res["failures"] += failures
    res["evaluations"] += hist.get("theorem-guard:points", 0)
    res["rule"] += (" | audit of the theorem's guard: points inside guard_C02_ast that finding_class_C02 does not flag must round-trip on "
                    "the real code and be same_interface_strict to the zero-normalised input")
    return res


def check_case(case):
    return fam_parseast.check_case_roundtrip(dict(case, kind="class"))
