"""C02 - config-class round-trip fidelity (composed from the emit-side layer EmitAst, the parse-side layer ParseAst
and the ReST docstring layers of C01).

Oracle: real  emit.class_ -> ast.unparse -> ast.parse -> parse.class_  on generated interface descriptions x default
text on/off x word-wrap on/off, compared with same_interface after the permitted zero-value normalisation.  Every
failure is classified by the executable Coq classifier C02Spec.finding_class_C02 (through the driver); a failure the
classifier does not name is a violation.  Points outside C02_domain (names that are not distinct identifiers) and
points whose defaults are not scalars (class `unmodelled`) are skipped."""
import fam_parseast
import fam_emitast

ID = "C02"
COQ_PROP = "C02"
FAMILIES = [(fam_parseast, 2500, 30000), (fam_emitast, 2500, 30000)]
TECHNIQUE = ("Coq proof of the AST-level codec parse_class (emit_class ir) under an explicit docstring-agreement hypothesis "
             "(names and order unconditionally on types/defaults; types, prose and scalar defaults with the zero-value "
             "normalisation under guard_C02_ast; unbounded in the number of parameters) + differential correspondence of the "
             "EmitAst and ParseAst models + round-trip oracle on the real emitter/parser classified by finding_class_C02")
TRUSTED = [
    "modelled, not verified: ast.unparse followed by ast.parse is the identity on the emitted tree (hypothesis R1; the oracle "
    "runs the real unparse/parse on every point)",
    "the docstring layer is decoupled: the theorem quantifies over the IR the ReST parser returns for the class docstring under "
    "the named hypothesis doc_agrees (same names in the same order as the folded IR, same prose, no type, no default), which "
    "is what C01's ReST theorem provides for emit_types off / emit_default_doc off; the textual :param -> :cvar -> :param "
    "rewriting of emit.class_ / parse.class_ is covered by correspondence and by the oracle, not by the theorem",
    "ast.parse on type strings is the TyExpr model (parse_ty / ty2expr); strings outside its fragment come from a recorded "
    "parse table in correspondence and are excluded from the theorem by guard_C02_ast",
    "finding_class_C02 (the partition of the failures of the real code) is validated by the oracle on every run, not proved "
    "complete: guard_C02_ast of the theorem is a sub-domain of guard_C02",
]


def oracle(rng, tier):
    n = 3000 if tier == "quick" else 40000
    return fam_parseast.oracle_class(rng, n)


def check_case(case):
    return fam_parseast.check_case_roundtrip(dict(case, kind="class"))
