"""C02 - config-class round-trip fidelity (composed from the emit-side layer EmitAst, the parse-side layer ParseAst
and the ReST docstring layers of C01).

Oracle: real  emit.class_ -> ast.unparse -> ast.parse -> parse.class_  on generated interface descriptions x default
text on/off x word-wrap on/off, compared with same_interface after the permitted zero-value normalisation.  Every
failure is classified by the executable Coq classifier C02Spec2.finding_class_C02_r (through the driver: C02Spec's
finding_class_C02 refined by the classes negative-zero-default and prose-exotic-blank that proofs found inside its "no
finding" region); a failure the classifier does not name is a violation, and a new class stands only for the failure it
describes (the -0.0 default coming back 0.0; the prose of the entry with the exotic blank) - any other difference at
such a point is a violation.  A stratum of the oracle draws those shapes.  Points outside C02_domain (names that are not distinct identifiers) and
points whose defaults are not scalars (class `unmodelled`) are skipped."""
import fam_parseast
import fam_emitast

ID = "C02"
COQ_PROP = "C02"
import fam_docemit  # noqa: E402  (the class docstring is written by to_docstring / fill and read by the ReST parser)
import fam_docparse  # noqa: E402

FAMILIES = [(fam_parseast, 2000, 30000), (fam_emitast, 2000, 30000), (fam_docemit, 1200, 15000), (fam_docparse, 1000, 15000)]
TECHNIQUE = ("Coq proof of the AST-level codec parse_class d (emit_class ir) under the named docstring hypothesis doc_agrees ir d: "
             "names/order/return presence for every IR of the domain whatever types and defaults are (C02_names_order); inside "
             "guard_C02_ast the parser returns the closed form norm_C02 ir, same_interface_strict to zero_default_norm ir -- types "
             "(TyExpr round trip), prose, defaults absent/None/int/float/bool/str with the zero-value normalisation, return entry "
             "(C02_partial); unbounded in the number of parameters; ~ C02_ast_statement with one computed witness per AST-visible "
             "finding class + differential correspondence of the EmitAst and ParseAst models + round-trip oracle on the real "
             "emitter/parser classified by finding_class_C02 + audit of the theorem's guard on the real code")
TRUSTED = [
    "modelled, not verified: ast.unparse followed by ast.parse is the identity on the emitted tree (hypothesis R1; the oracle "
    "runs the real unparse/parse on every point)",
    "the docstring layer is decoupled: the theorems quantify over the IR d the ReST parser returns for the class docstring under "
    "the named hypothesis doc_agrees (the entries that have prose, return entry folded in as return_type, in order, with their "
    "prose; returns None) -- what C01's ReST theorem provides for emit_types off; that doc_agrees follows from the DocEmit / "
    "DocParse models for the class docstring (the :param -> :cvar -> :param rewriting, indent level 1, default sentences written "
    "and removed) is NOT proved: it is covered by correspondence, by the oracle and by the docstring-level classes of "
    "finding_class_C02",
    "ast.parse on type strings is the TyExpr model (parse_ty / ty2expr); strings outside its canonical fragment, code-quoted "
    "defaults and return defaults go through a recorded parse table in correspondence and are outside guard_C02_ast",
    "finding_class_C02_r (the partition of the failures of the real code: finding_class_C02 plus the two classes of "
    "model/C02Spec2.v) is validated by the oracle on every run, not proved complete; the proofs found two failures the first "
    "classifier did not name (float default -0.0 comes back 0.0: theorem C02_negative_zero_unclassified; prose with a form "
    "feed or another line boundary is re-flowed), now the classes negative-zero-default and prose-exotic-blank "
    "(proofs/C02Spec2Facts.v: the refinement only adds these, its guard is inside guard_C02); guard_C02_ast covers about 86% "
    "of the generated points the classifier leaves unflagged",
]


def _theorem_guard_audit(rng, n):
    """points inside guard_C02_ast (the sub-domain of theorem C02_partial) that the classifier does not flag: the real round
    trip must hold and the parsed-back description must be same_interface_strict to zero_default_norm of the input (the
    relation the theorem proves).  Needs the family run_c02compose of model/C02Codec.v in the driver; skipped otherwise."""
    from common import Sym, dumps, loads, run_model
    import irwire
    F = fam_parseast
    pts = [F.gen_point(rng, "class") for _ in range(n)]
    enc = [irwire.enc_ir(F._od(ir)) for ir, _, _ in pts]
    g = run_model([dumps([Sym("c02_ast_check"), e, o["word_wrap"], False, o["word_wrap"]]) for e, (_, o, _) in zip(enc, pts)])
    if any(r == "bad-request" for r in g[:1]):
        return {"theorem-guard:family-not-in-driver": 1}, []
    cls = run_model([dumps([Sym("c02_class_r"), o["emit_default_doc"], o["word_wrap"], e]) for e, (_, o, _) in zip(enc, pts)])
    hist, failures, rel_reqs, rel_cases = {"theorem-guard:inside": 0, "theorem-guard:points": n}, [], [], []
    for (ir, o, _), a, c in zip(pts, g, cls):
        ga = loads(a)
        if ga[0] != "true":
            continue
        hist["theorem-guard:inside"] += 1
        if ga[2] != ["some", "true"]:
            failures.append({"case": {"kind": "class", "ir": ir, "opts": o}, "class": None,
                             "what": "model: guard_C02_ast holds but the composed model round trip does not (%r)" % (ga,)})
        if loads(c) != "none":
            continue        # a docstring-level finding class: outside the AST-level theorem
        case = {"kind": "class", "ir": ir, "opts": o}
        ok, what, out = F.round_trip("class", ir, o)
        if not ok:
            failures.append({"case": case, "what": "inside guard_C02_ast and unclassified, yet: " + what, "class": None})
        elif out is not None:
            rel_reqs.append(dumps([Sym("same_interface_norm_strict"), irwire.enc_ir(F._od(ir)), irwire.enc_ir(out)]))
            rel_cases.append(case)
    for case, r in zip(rel_cases, run_model(rel_reqs)):
        if r != "true":
            failures.append({"case": case, "class": None,
                             "what": "inside guard_C02_ast: parsed-back description is not same_interface_strict to the "
                                     "zero-normalised input (%s)" % r})
    hist["theorem-guard:strict-relation-checked"] = len(rel_cases)
    return hist, failures


# ------------------------------------------------------------------ the classes of model/C02Spec2.v
NEW_CLASSES = ("negative-zero-default", "prose-exotic-blank")


def _entry(ir, n):
    if n == "return_type":
        return ((ir.get("returns") or {}).get("return_type")) if ir.get("returns") else None
    return (ir.get("params") or {}).get(n)


def _refined(pts):
    """[(refined class or None or 'out-of-domain', new classes that apply, entries with a -0.0 default under a scalar type,
    entries with exotic prose)] for (ir, opts) points, from C02Spec2 (c02_class_r, c02_new_classes)"""
    from common import Sym, dumps, loads, run_model, unhx
    import irwire
    reqs = []
    for ir, o in pts:
        e = irwire.enc_ir(fam_parseast._od(ir))
        reqs += [dumps([Sym(f), o["emit_default_doc"], o["word_wrap"], e]) for f in ("c02_class_r", "c02_new_classes")]
    out, resp = [], run_model(reqs)
    for k in range(len(pts)):
        ce, nw = loads(resp[2 * k]), loads(resp[2 * k + 1])
        cls = "out-of-domain" if ce == "out-of-domain" else None if ce == "none" else unhx(ce[1])
        out.append((cls, [unhx(x) for x in nw[0]], [unhx(x) for x in nw[1]], [unhx(x) for x in nw[2]]))
    return out


def described_by_new_classes(ir, out, negz, exotic):
    """a new class stands for the failure it describes only: the parsed-back description must be the input with (a) the
    -0.0 defaults of the named entries replaced by 0.0 and (b) the prose of the entries with an exotic blank changed in
    whatever way - every other difference (and an exception anywhere) is not what these classes describe"""
    import copy
    if out is None:
        return False
    exp = copy.deepcopy(ir)
    for n in negz:
        if _entry(exp, n) is not None:
            _entry(exp, n)["default"] = 0.0
    for n in exotic:
        if _entry(exp, n) is not None and _entry(out, n) is not None:
            _entry(exp, n)["doc"] = _entry(out, n).get("doc")
    return not fam_parseast.same_interface(exp, out, "class")


def _gen_new_shape(rng):
    """an (ir, opts, tags) point with one of the shapes the proofs found: a float default -0.0 (mostly under the scalar
    type float), prose with a line boundary other than the line feed inside (a parameter or the return entry); alone or
    next to clean parameters"""
    from collections import OrderedDict
    import gen_ir
    import gen_text as G
    ir, tags = gen_ir.gen_ir(rng, nparams=rng.choice([0, 0, 1, 2]), returns="none", kwargs=False, clean=True)
    ir["doc"] = G.clean_prose(rng, max_words=6)
    k = rng.random()
    name = G.ident(rng)
    while name in ir["params"]:
        name = G.ident(rng)
    if k < 0.5:
        p = {"doc": G.clean_prose(rng), "typ": rng.choice(["float", "float", "float", "Optional[float]"]), "default": -0.0}
        tags = ["negative-zero", "typ:" + p["typ"]]
    elif k < 0.85:
        typ = rng.choice(["int", "str", "float", "Optional[int]", "List[str]"])
        p = {"doc": G.exotic_blank_prose(rng), "typ": typ}
        d = gen_ir.consistent_default(rng, typ, ["absent", "value", "value"])
        if d[0] != "absent":
            p["default"] = d[1]
        tags = ["exotic-blank-prose:param"]
    else:
        p = {"doc": G.clean_prose(rng), "typ": "int", "default": 5}
        ir["returns"] = OrderedDict((("return_type", {"doc": G.exotic_blank_prose(rng),
                                                      "typ": rng.choice(["int", "List[str]", "np.ndarray"])}),))
        tags = ["exotic-blank-prose:return"]
    items = list(ir["params"].items())
    items.insert(rng.randint(0, len(items)), (name, p))
    ir["params"] = OrderedDict(items)
    return ir, {"emit_default_doc": rng.random() < 0.3, "word_wrap": rng.random() < 0.5}, tags


def _classify_failure(case, out, info):
    """the class a failure at a point is reported under: the refined class, except that a NEW class is kept only when the
    failure is what the new classes that apply describe (otherwise None: a violation).  -> (class, note)"""
    cls, news, negz, exotic = info
    if cls in NEW_CLASSES and not described_by_new_classes(case["ir"], out, negz, exotic):
        return None, " [not what the recorded class%s %s describe%s]" % ("es" if len(news) > 1 else "", ", ".join(news),
                                                                        "" if len(news) > 1 else "s")
    return cls, ""


def _new_shape_oracle(rng, n):
    """stratum: the shapes of _gen_new_shape through the real round trip, classified by the refined classifier"""
    import collections
    F = fam_parseast
    pts = [_gen_new_shape(rng) for _ in range(n)]
    infos = _refined([(ir, o) for ir, o, _ in pts])
    hist, failures = collections.Counter(), []
    n_eval = 0
    for (ir, o, tags), info in zip(pts, infos):
        cls = info[0]
        if cls == "out-of-domain":
            hist["new-shapes:out-of-domain"] += 1
            continue
        case = {"kind": "class", "ir": ir, "opts": o}
        ok, what, out = F.round_trip("class", ir, o)
        n_eval += 1
        if cls == "unmodelled":
            continue
        if not ok:
            cls, note = _classify_failure(case, out, info)
            failures.append({"case": case, "what": what + note, "class": cls})
        hist["new-shapes:%s:%s:%s" % (tags[0], "holds" if ok else "fails", cls or "in-guard")] += 1
    hist["new-shapes:points"] = n_eval
    return dict(hist), failures


# ------------------------------------------------------------------ number defaults under another number type
# The classes default-type-mismatch (parameters) and return-default-not-code (return entry) were recorded for what the
# unchanged tree does to an explicit number default under one of the bare scalar types int / float / bool when its Python
# type is another one: param2ast writes `default or <zero value of the type>`, so a FALSY default (0, 0.0, -0.0, False)
# comes back as the zero value of the declared type and every other default comes back as it is, value and Python type.
# That is what these classes absorb for such an entry; a default that comes back differently is a different failure.
NUMBER_ZERO = {"int": 0, "float": 0.0, "bool": False}
MISMATCH_CLASSES = {"default-type-mismatch": "param", "return-default-not-code": "return"}


def _is_number(v):
    return isinstance(v, (bool, int, float))


def number_mismatch_entries(ir):
    """names (`return_type` for the return entry) of the entries typed int / float / bool whose explicit default is a number
    of a different Python type"""
    out = []
    for n, q in list((ir.get("params") or {}).items()) + [("return_type", _entry(ir, "return_type"))]:
        if q and q.get("typ") in NUMBER_ZERO and "default" in q and _is_number(q["default"]) \
                and type(q["default"]) is not type(NUMBER_ZERO[q["typ"]]):
            out.append(n)
    return out


def number_default_expected(q):
    """what the recorded classes say comes back for the default of such an entry"""
    return q["default"] if q["default"] else NUMBER_ZERO[q["typ"]]


def _own_class(ir, opts, names):
    """the class the classifier gives each named entry when it stands alone (same summary, same options)"""
    from common import Sym, dumps, loads, run_model, unhx
    import irwire
    reqs = []
    for n in names:
        sub = {"name": None, "type": "static", "doc": ir.get("doc"), "params": {}, "returns": None}
        if n == "return_type":
            sub["returns"] = {"return_type": _entry(ir, n)}
        else:
            sub["params"] = {n: ir["params"][n]}
        reqs.append(dumps([Sym("c02_class"), opts["emit_default_doc"], opts["word_wrap"], irwire.enc_ir(fam_parseast._od(sub))]))
    out = []
    for r in run_model(reqs):
        ce = loads(r)
        out.append(ce if isinstance(ce, str) else unhx(ce[1]))
    return out


def undescribed_number_defaults(ir, opts, out):
    """[(entry, expected, got)] for the entries of number_mismatch_entries(ir) that fall, on their own, in the class that
    describes them and whose default did not come back as that class describes (value and Python type)"""
    names = number_mismatch_entries(ir)
    if out is None or not names:
        return []
    bad = []
    for n, own in zip(names, _own_class(ir, opts, names)):
        if MISMATCH_CLASSES.get(own) != ("return" if n == "return_type" else "param"):
            continue
        q, w = _entry(ir, n), _entry(out, n)
        if w is None:
            continue
        exp = number_default_expected(q)
        if "default" not in w or not fam_parseast._same_val(exp, w["default"]):
            bad.append((n, exp, w.get("default", "<absent>")))
    return bad


def _tighten_mismatch(failures):
    """failures reported under default-type-mismatch / return-default-not-code keep that class only when the number
    defaults the class is about came back as the class describes"""
    hist = {}
    for f in failures:
        c = f.get("case")
        if f.get("class") not in MISMATCH_CLASSES or not isinstance(c, dict) or c.get("kind") != "class" or "ir" not in c:
            continue
        if not number_mismatch_entries(c["ir"]):
            continue
        _, _, out = fam_parseast.round_trip("class", c["ir"], c["opts"])
        bad = undescribed_number_defaults(c["ir"], c["opts"], out)
        key = "mismatch-attribution:described"
        if bad:
            f["what"] += " [not what the recorded class %s describes: %s]" % (
                f["class"], "; ".join("%s default expected back as %r, came back as %r" % b for b in bad))
            f["class"] = None
            key = "mismatch-attribution:not-described"
        hist[key] = hist.get(key, 0) + 1
    return hist


def _gen_number_mismatch(rng):
    """an (ir, opts, tags) point with one entry (a parameter, sometimes the return entry) typed int / float / bool whose
    explicit default is a number of another Python type - mostly non-zero (`lr: float = 1`, `verbose: int = True`,
    `steps: int = 2.0`, `shuffle: bool = 1`), sometimes falsy - next to 0..2 parameters of the proved shape"""
    from collections import OrderedDict
    import gen_text as G
    items, used = [], set()
    for _ in range(rng.choice([0, 0, 1, 2])):
        n = G.ident(rng)
        while n in used:
            n = G.ident(rng)
        used.add(n)
        typ = rng.choice(["int", "float", "str", "bool", "Optional[int]", "Optional[str]"])
        v = {"int": rng.choice([5, 1, -3, 100]), "float": rng.choice([0.5, 2.5, -1.25]), "bool": True,
             "str": rng.choice(["mnist", "adam", "relu", "x"])}[typ.replace("Optional[", "").rstrip("]")]
        items.append((n, {"doc": G.clean_prose(rng), "typ": typ, "default": v}))
    typ = rng.choice(["float", "float", "int", "int", "bool"])
    other = {"float": [1, -2, 10, 3, 12345678901234, True, True],
             "int": [True, True, 1.0, 2.0, -3.0, 2.5, 1e+20, 100.0],
             "bool": [1, 1, 2, -1, 1.0, 0.5]}[typ]
    falsy = {"float": [0, False], "int": [False, 0.0], "bool": [0, 0.0]}[typ]
    v = rng.choice(falsy) if rng.random() < 0.15 else rng.choice(other)
    p = {"doc": G.clean_prose(rng), "typ": typ, "default": v}
    ret = None
    if rng.random() < 0.2:
        ret = OrderedDict((("return_type", p),))
        where = "return"
        if not items:
            items.append((G.ident(rng), {"doc": G.clean_prose(rng), "typ": "int", "default": 5}))
    else:
        name = G.ident(rng)
        while name in used:
            name = G.ident(rng)
        items.insert(rng.randint(0, len(items)), (name, p))
        where = "param"
    ir = {"name": None, "type": "static", "doc": G.clean_prose(rng, max_words=6), "params": OrderedDict(items), "returns": ret}
    tags = ["%s:%s-under-%s:%s" % (where, type(v).__name__, typ, "falsy" if not v else "nonzero")]
    return ir, {"emit_default_doc": rng.random() < 0.4, "word_wrap": rng.random() < 0.5}, tags


def _number_mismatch_oracle(rng, n):
    """stratum: the shapes of _gen_number_mismatch through the real round trip; whatever class the point falls in, the
    number default must come back as the recorded class describes (falsy: the zero value of the declared type; otherwise
    the same value with the same Python type)"""
    import collections
    F = fam_parseast
    pts = [_gen_number_mismatch(rng) for _ in range(n)]
    infos = _refined([(ir, o) for ir, o, _ in pts])
    hist, failures = collections.Counter(), []
    n_eval = 0
    for (ir, o, tags), info in zip(pts, infos):
        cls = info[0]
        if cls == "out-of-domain":
            hist["number-mismatch:out-of-domain"] += 1
            continue
        case = {"kind": "class", "ir": ir, "opts": o}
        ok, what, out = F.round_trip("class", ir, o)
        n_eval += 1
        if cls == "unmodelled":
            continue
        if not ok:
            cls, note = _classify_failure(case, out, info)
            if cls in MISMATCH_CLASSES:
                bad = undescribed_number_defaults(ir, o, out)
                if bad:
                    note += " [not what the recorded class %s describes: %s]" % (
                        cls, "; ".join("%s default expected back as %r, came back as %r" % b for b in bad))
                    cls = None
            failures.append({"case": case, "what": what + note, "class": cls})
        hist["number-mismatch:%s:%s:%s" % (tags[0], "holds" if ok else "fails", cls or "in-guard")] += 1
    hist["number-mismatch:points"] = n_eval
    return dict(hist), failures


def _reclassify(failures):
    """failures of the main stream that finding_class_C02 does not name: ask the refined classifier"""
    idx = [k for k, f in enumerate(failures) if f.get("class") is None and isinstance(f.get("case"), dict)
           and f["case"].get("kind") == "class" and "ir" in f["case"] and "opts" in f["case"]]
    if not idx:
        return {}
    infos = _refined([(failures[k]["case"]["ir"], failures[k]["case"]["opts"]) for k in idx])
    hist = {}
    for k, info in zip(idx, infos):
        if info[0] not in NEW_CLASSES:
            continue
        f = failures[k]
        _, _, out = fam_parseast.round_trip("class", f["case"]["ir"], f["case"]["opts"])
        cls, note = _classify_failure(f["case"], out, info)
        f["class"], f["what"] = cls, f["what"] + note
        key = "reclassified:" + (cls or "not-described")
        hist[key] = hist.get(key, 0) + 1
    return hist


def oracle(rng, tier):
    n = 3000 if tier == "quick" else 40000
    res = fam_parseast.oracle_class(rng, n)
    hist, failures = _theorem_guard_audit(rng, 600 if tier == "quick" else 8000)
    res["histogram"].update(hist)
    res["failures"] += failures
    res["evaluations"] += hist.get("theorem-guard:points", 0)
    res["rule"] += (" | audit of the theorem's guard: points inside guard_C02_ast that finding_class_C02_r does not flag must round-trip on "
                    "the real code and be same_interface_strict to the zero-normalised input")
    res["histogram"].update(_reclassify(res["failures"]))
    hist, failures = _new_shape_oracle(rng, 300 if tier == "quick" else 3000)
    res["histogram"].update(hist)
    res["failures"] += failures
    res["evaluations"] += hist.get("new-shapes:points", 0)
    res["rule"] += (" | stratum of the shapes proofs found inside the first classifier's no-finding region (float default -0.0; prose "
                    "with a form feed / vertical tab / CR / FS / GS / RS inside), classified by finding_class_C02_r; a new class "
                    "stands only for the difference it describes")
    res["histogram"].update(_tighten_mismatch(res["failures"]))
    hist, failures = _number_mismatch_oracle(rng, 400 if tier == "quick" else 4000)
    res["histogram"].update(hist)
    res["failures"] += failures
    res["evaluations"] += hist.get("number-mismatch:points", 0)
    res["rule"] += (" | stratum of number defaults under another bare number type (int under float, bool under int, float under "
                    "int / bool, mostly non-zero; parameter or return entry); the classes default-type-mismatch / "
                    "return-default-not-code absorb for such an entry only what they describe (a falsy default comes back as the "
                    "zero value of the declared type, any other default as it is)")
    return res


def check_case(case):
    return fam_parseast.check_case_roundtrip(dict(case, kind="class"))
