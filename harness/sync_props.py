"""Shared oracle machinery for the sync properties C09, C10, C11: run scenarios, judge, classify failures with the
extracted Coq classifiers (SyncSpec2.classify_install_r / classify_target_r / classify_frame_r / classify_raise_r, which
return the class of SyncSpec where there is one) from the recorded law instances."""
import ast
import collections
import random

from common import Sym, dumps, loads, opt, run_model, unhx
import sync_lab as L
import sync_judge as J

TRUSTED = [
    "modelled, not verified: ast.parse/ast.unparse and black.format_str (Section variables render_node/render_tree/parse_file of coq/model/Sync.v; their answers are recorded from the run and replayed), the conversion layers emit_k/parse_k/find_in_ast/RewriteAtQuery/cmp_ast as abstract functions in the sync theorems (their own properties are C02-C05, C15)",
    "modelled, not verified: the OS write model of coq/model/FS.v (open/write/os.replace; a failing write leaves a prefix in the temporary file; os.replace is atomic; faults are exceptions, not process kills)",
]


# which kinds of C10 failure a recorded finding class stands for (other kinds on the same target are NOT absorbed)
ABSORBS = {
    # a nested class target is rewritten (same bytes) and reported modified on every run
    "written-definition-compares-unequal": {"flag-true-bytes-same", "print-modified-bytes-same", "again1"},
    # a stale function / argparse function stays stale
    "found-definition-not-replaced": {"interface"},
    # Class.method is created/appended as a module-level function, and again on every run
    "method-target-written-at-module-level": {"not-found", "wrong-type", "again1", "again2+", "statements"},
    "module-docstring-reindented": {"module-docstring-only"},
    "other-docstring-reformatted": {"docstrings-only"},
    # X = f(X) next to the definition: the assignment is replaced by the new definition; a function definition stays stale
    "same-named-binding-replaced": {"rebinding-replaced", "interface"},
    # a same-named class nested in an if / else / try body / with before a class target that differs from the truth: the
    # stand-in is overwritten (C11), the named definition stays as it was (C09), and every later run overwrites the stand-in
    # again with the same text and reports the file modified (C10) - not: bytes changing again, anything else lost
    "same-named-definition-in-non-scope-statement-replaced": {"interface", "flag-true-bytes-same", "print-modified-bytes-same",
                                                              "stand-in-replaced"},
    # NAME = None above `def NAME`: sync raises AssertionError before anything is emitted for that target
    "forward-declared-function-target-raises": {"raised"},
}


PERSISTS = {
    "method-target-written-at-module-level": {"not-found", "wrong-type"},
    "found-definition-not-replaced": {"interface"},
    "same-named-binding-replaced": {"interface"},
}


def _present(old, name):
    if old is None:
        return False
    try:
        return J.located(ast.parse(old), name) is not None
    except SyntaxError:
        return False


def _enclosing(old, name):
    if old is None or "." not in name:
        return False
    try:
        return isinstance(J.located(ast.parse(old), name.rsplit(".", 1)[0]), ast.ClassDef)
    except SyntaxError:
        return False


def _rebinding(old, name):
    """the node that a rewrite at the target's location hits is an assignment to the target's name, not its definition"""
    if old is None:
        return False
    try:
        tree = ast.parse(old)
    except SyntaxError:
        return False
    body = tree.body
    if "." in name:
        enc = J.located(tree, name.rsplit(".", 1)[0])
        if not isinstance(enc, ast.ClassDef):
            return False
        body = enc.body
    # RewriteAtQuery replaces the first node at the searched location that is not a FunctionDef (those it never replaces):
    # the observation is whether that node is an assignment rather than the (class) definition itself
    short = name.split(".")[-1]
    first = next((s for s in body if J.binds(s, short) or (isinstance(s, ast.ClassDef) and s.name == short)), None)
    return first is not None and not isinstance(first, ast.ClassDef)


def _standin_first(old, name):
    """the first node, in the visit order of the rewrite, that carries the target's location and is not a FunctionDef (those
    are never replaced) is a class definition nested in statements that open no scope (an if / else branch, a try body or
    else, a with / for / while body) - not a statement of the target's own scope.  Dotted targets: never (a definition
    nested that way inside the enclosing class has the location [name], not [class, name])."""
    if old is None or "." in name:
        return False
    try:
        tree = ast.parse(old)
    except SyntaxError:
        return False

    def first(body, depth):
        for s in body:
            if (isinstance(s, ast.ClassDef) and s.name == name) or J.binds(s, name):
                return s, depth
            if isinstance(s, J.NON_SCOPE_STMTS):
                for inner in J.non_scope_bodies(s):
                    hit = first(inner, depth + 1)
                    if hit is not None:
                        return hit
        return None
    hit = first(tree.body, 0)
    return hit is not None and hit[1] > 0 and isinstance(hit[0], ast.ClassDef)


def _raised_before_emit(call):
    """the call raised AssertionError after the file was read and parsed and before the emitter was entered"""
    return bool(call.get("result") and call["result"][0] == "err" and call["result"][1] == "AssertionError"
                and call.get("emit") is None and call.get("parse") == ("ok",))


def obs2_of(call, name):
    """the observations of SyncSpec2.call_obs2"""
    return [obs_of(call, name), _standin_first(call["old"], name), call.get("found_type") in ("Assign", "AnnAssign"),
            call["kind"] in ("function", "argparse_function"), _raised_before_emit(call)]


def obs_of(call, name):
    return [call["old"] is not None, bool(call["found"]), bool(call["cmp"]), bool(call["replaced"]), _present(call["old"], name),
            _enclosing(call["old"], name), _rebinding(call["old"], name)]


def classify(res):
    """{target kind: class or None} via the Coq classifier, plus run-level class"""
    scn = res["scn"]
    per_run = res["calls"]
    reqs, keys = [], []
    for k in scn["targets"]:
        fname = res["paths"][k]
        kd = L.kind_of(k)
        c0 = next((c for c in (per_run[0] if per_run else []) if c["file"].endswith("/" + fname)), None)
        c1 = next((c for c in (per_run[1] if len(per_run) > 1 else []) if c["file"].endswith("/" + fname)), None)
        if c0 is None:
            continue
        name = scn["names"][kd]
        ce = next((c for c in ((res.get("edit") or {}).get("calls") or []) if c["file"].endswith("/" + fname)), None)
        whole = any(bool(c and c["found"] and not c["cmp"] and c["replaced"]) for c in (c0, c1, ce))
        o0, o1 = obs2_of(c0, name), opt(obs2_of(c1, name) if c1 else None)
        reqs.append(dumps([Sym("sync_class_r"), "." in name, o0, o1]))
        reqs.append(dumps([Sym("frame_class_r"), True, False, whole, "." in name, o0, o1]))
        reqs.append(dumps([Sym("frame_class_r"), False, True, whole, "." in name, o0, o1]))
        reqs.append(dumps([Sym("install_class_r"), "." in name, o0]))
        # the run after the truth was edited is judged like a first run, on its own call
        reqs.append(dumps([Sym("install_class_r"), "." in name, obs2_of(ce if ce is not None else c0, name)]))
        keys.append(k)
    out = {}
    if reqs:
        outs = run_model(reqs)
        for idx, k in enumerate(keys):
            e, e2, e5, e3, e4 = (loads(outs[5 * idx + j]) for j in range(5))
            out[(k, "edit")] = None if e4 == "none" else unhx(e4[1])
            out[(k, "docstrings-only")] = None if e5 == "none" else unhx(e5[1])
            out[(k, "repeat")] = None if e == "none" else unhx(e[1])
            out[(k, "module-docstring-only")] = None if e2 == "none" else unhx(e2[1])
            out[(k, "install")] = None if e3 == "none" else unhx(e3[1])
    out.update(classify_raises(res))
    out.update(classify_alternate(res))
    return out


def alt_run_index(res, j):
    """the run index (as sync_judge._steps counts) of the j-th run of the phase in which the kind named as truth alternates"""
    return len(res["runs"]) + (1 if res.get("edit") is not None else 0) + j


def classify_alternate(res):
    """the runs that name another kind as truth: every recorded call is judged on its own, as the call of a repetition
    (SyncSpec2.classify_target_r looks at the later call only) -> {(file key, "alt" | "alt-module-docstring-only" |
    "alt-docstrings-only", run index): class or None}"""
    scn = res["scn"]
    keys, reqs = [], []
    by_file = {f: (tk, k) for tk, k, f in J.files_of_kinds(res)}
    for j, a in enumerate(res.get("alt") or []):
        for c in a.get("calls") or []:
            tk, k = by_file.get(c["file"].rsplit("/", 1)[-1], (None, None))
            if tk is None:
                continue
            name = scn["names"][k]
            o = obs2_of(c, name)
            whole = bool(c["found"] and not c["cmp"] and c["replaced"])
            reqs.append(dumps([Sym("sync_class_r"), "." in name, o, opt(o)]))
            reqs.append(dumps([Sym("frame_class_r"), True, False, whole, "." in name, o, opt(o)]))
            reqs.append(dumps([Sym("frame_class_r"), False, True, whole, "." in name, o, opt(o)]))
            keys.append((tk, alt_run_index(res, j)))
    out = {}
    if reqs:
        outs = run_model(reqs)
        for idx, (tk, i) in enumerate(keys):
            e, e2, e5 = (loads(outs[3 * idx + n]) for n in range(3))
            out[(tk, "alt", i)] = None if e == "none" else unhx(e[1])
            out[(tk, "alt-module-docstring-only", i)] = None if e2 == "none" else unhx(e2[1])
            out[(tk, "alt-docstrings-only", i)] = None if e5 == "none" else unhx(e5[1])
    return out


def classify_raises(res):
    """{("*raised*", run index | "edit"): (target key, class or None)}: a run that raised is judged on the recorded call that
    raised (the last one of that run), by SyncSpec2.classify_raise_r"""
    scn = res["scn"]
    runs = [(i, calls) for i, calls in enumerate(res["calls"] or [])]
    if (res.get("edit") or {}).get("calls") is not None:
        runs.append(("edit", res["edit"]["calls"]))
    for j, a in enumerate(res.get("alt") or []):
        if a.get("calls") is not None:
            runs.append((alt_run_index(res, j), a["calls"]))
    keys, reqs = [], []
    for i, calls in runs:
        last = calls[-1] if calls else None
        if last is None or not last.get("result") or last["result"][0] != "err":
            continue
        tk = next((k for k in scn["targets"] if last["file"].endswith("/" + res["paths"][k])), None)
        if tk is None:
            # a later run (another kind named as truth): the file that held the truth of the first run is a target too
            tk = next((k for k, _, f in J.files_of_kinds(res) if last["file"].endswith("/" + f)), None)
        if tk is None:
            continue
        keys.append((i, tk))
        reqs.append(dumps([Sym("raise_class_r"), obs2_of(last, scn["names"][L.kind_of(tk)])]))
    out = {}
    if reqs:
        for (i, tk), o in zip(keys, run_model(reqs)):
            e = loads(o)
            out[("*raised*", i)] = (tk, None if e == "none" else unhx(e[1]))
    return out


def evaluate(rng, tier, judge, n_quick=150, n_thorough=1500, runs=3, cli_share=0.12, main_share=0.35):
    n = n_quick if tier == "quick" else n_thorough
    failures, hist, samples = [], collections.Counter(), []
    seen = set()
    plans = []
    for i in range(n):
        # via: the command line in a child process | its entry point __main__.main(argv) called in-process (the same
        # argument handling, recorded) | conformance.ground_truth called directly
        r_via = rng.random()
        via = "cli" if r_via < cli_share else "main" if r_via < cli_share + main_share else "api"
        plans.append((via, L.gen_scenario(rng, via=via, runs=runs)))
    # the strata of the recorded findings whose shapes the generator draws only rarely (a same-named class in a statement
    # that opens no scope before a class target that differs from the truth; a forward-declared function target): a few
    # scenarios more (1 in 25), from a generator of their own so that the regular scenarios of a seed do not depend on them
    krng = random.Random(rng.random())
    for j in range(max(4, n // 25)):
        r_via = krng.random()
        via = "cli" if r_via < cli_share else "main" if r_via < cli_share + main_share else "api"
        plans.append((via, L.gen_known_shape(krng, L.KNOWN_SHAPES[j % len(L.KNOWN_SHAPES)], via=via, runs=runs)))
    # the history stratum (1 in 8 scenarios more, from a generator of its own): after the regular runs the KIND named as
    # truth alternates for four or five runs while nobody edits a file; prose with characters special to some layer
    hrng = random.Random(rng.random())
    for j in range(max(6, n // 8)):
        r_via = hrng.random()
        via = "cli" if r_via < cli_share else "main" if r_via < cli_share + main_share else "api"
        plans.append((via, L.gen_history_scenario(hrng, via=via, runs=runs)))
    # the kind-set history stratum (1 in 8 scenarios more, from a generator of its own): the truth stays, the SET of kinds given
    # varies from run to run (all three / the truth and one other kind, with and without the argparse target), truths with a
    # return entry included (`-> None` with a documented `:returns:` among them)
    srng = random.Random(rng.random())
    for j in range(max(6, n // 8)):
        r_via = srng.random()
        via = "cli" if r_via < cli_share else "main" if r_via < cli_share + main_share else "api"
        plans.append((via, L.gen_kindset_history_scenario(srng, via=via, runs=runs)))
    for via, scn in plans:
        if via == "cli":
            # run through the command line for the judged behaviour, and once more through the API (same scenario,
            # fresh directory) to obtain the law instances for classification
            res = L.run_scenario(scn, record=False)
            res_api = L.run_scenario(dict(scn, via="api"), record=True)
            classes = classify(res_api)
            truth_found = res_api["proj"]["gold_ir"] is not None
        else:
            res = L.run_scenario(scn, record=True)
            classes = classify(res)
            truth_found = res["proj"]["gold_ir"] is not None
        if res["proj"]["gold_ir"] is None and via == "cli":
            truth_found = False
        key = dumps([scn["truth"], sorted(scn["given"]), sorted((k, v["pre"], v["position"]) for k, v in scn["targets"].items()),
                     "." in scn["names"]["function"]])
        hist["truth:%s" % scn["truth"]] += 1
        if scn.get("known_shape"):
            hist["recorded-finding-shape:%s" % scn["known_shape"]] += 1
        hist["via:%s" % via] += 1
        hist["given:%d" % len(scn["given"])] += 1
        if scn.get("alternate_given"):
            hist["history:kind-set-varies:%d-more-runs:returns-%s:%s" % (
                len(scn["alternate"]), scn.get("returns_form") or ("typed-default" if scn.get("with_returns") else "none"),
                "judged" if J.history_settled(res) else "not-settled-after-first-run")] += 1
        elif scn.get("alternate"):
            hist["history:truth-kind-alternates:%d-more-runs:%s" % (len(scn["alternate"]), "judged" if J.history_settled(res) else
                                                                   "not-settled-after-first-run")] += 1
        if scn.get("prose_special"):
            hist["prose-special:%s:%s" % (scn["prose_special"]["token"], scn["prose_special"]["where"])] += 1
        for k, t in scn["targets"].items():
            hist["target:%s:%s%s" % (k, t["pre"], ":method" if L.kind_of(k) == "function" and "." in scn["names"]["function"] else "")] += 1
            for opt_key in ("nested", "forward_decl", "receiver", "style", "inner_same_named"):
                if t.get(opt_key):
                    hist["target-shape:%s:%s" % (opt_key, t[opt_key])] += 1
            if t["pre"] == "empty" and t.get("zero_text"):
                hist["target-shape:zero-statements:%s" % ("comment-only" if "#" in t["zero_text"] else "blank-only")] += 1
            if t.get("special_sur") and t["pre"] not in ("missing", "empty", "hardlink"):
                hist["target-shape:sibling-docstrings-with-special-characters"] += 1
        second = scn["truth"] + "#2"
        if second in scn["targets"]:
            hist["second-file-of-truth-kind:%s:%s" % (via, "sorts-before-the-truth" if L.file_of(second, scn) < L.file_of(scn["truth"], scn)
                                                     else "sorts-after-the-truth")] += 1
        for opt_key in ("receiver", "style"):
            if scn.get(opt_key) and scn["truth"] == "function":
                hist["truth-shape:%s:%s" % (opt_key, scn[opt_key])] += 1
        if scn.get("body") is not None:
            hist["truth-body:%d" % scn["body"]] += 1
        hist["files:%s:options-%s" % ("own-names" if scn.get("files") else "kind-names",
                                      "shuffled" if scn.get("argv_seed") is not None else "in-order")] += 1
        if len(samples) < 6:
            samples.append({"scenario": scn})
        fails = judge(res)
        if not fails and key not in seen and scn["targets"]:
            seen.add(key)
        for f in fails:
            k = f["facts"]["kind"]
            if not truth_found:
                cls = "truth-definition-not-found"
            elif f["kind"] == "raised":
                # sync raised: judged on the call that raised in that run (none recorded = raised outside every call)
                tk, c = classes.get(("*raised*", "edit" if f.get("phase") == "edit" else f["facts"].get("run", 0)), (None, None))
                cls = c if c is not None and "raised" in ABSORBS.get(c, ()) else None
                if tk is not None:
                    f = dict(f, what="%s (in the call for target %s)" % (f["what"], tk))
            elif f.get("phase") == "alt":
                # a run that names another kind as truth: judged on that run's own call for the file (the key of the file that
                # held the first truth is its kind), a class standing only for the ways of failing listed in ABSORBS
                i_run = f["facts"].get("run", 0)
                if f["kind"] in ("module-docstring-only", "docstrings-only"):
                    cls = classes.get((f["target"], "alt-" + f["kind"], i_run))
                else:
                    c = classes.get((f["target"], "alt", i_run))
                    cls = c if c is not None and f["kind"] in ABSORBS.get(c, (f["kind"],)) else None
            elif f["kind"] in ("module-docstring-only", "docstrings-only") and (k, f["kind"]) in classes:
                cls = classes[(k, f["kind"])]
            elif (k, "install") in classes:
                # what happens in the first run is judged against the first call alone; a repetition against the first
                # two calls; the run after the truth was edited against its own call.  What went wrong when the target
                # was installed persists (a method written at module level stays there), so the class of the first
                # run is tried last.  A class stands only for the ways of failing listed in ABSORBS.
                first_run = f["facts"].get("run", 0) == 0
                inst = classes[(k, "install")]
                # in later phases the installation class stands only for what persists (the definition sits where the
                # first run put it), not for bytes changing again
                inst_later = inst if f["kind"] in PERSISTS.get(inst, ()) else None
                cand = [inst] if first_run else \
                    [classes.get((k, "edit")), inst_later] if f.get("phase") == "edit" else \
                    [classes[(k, "repeat")], inst_later]
                cls = next((c for c in cand if c is not None and f["kind"] in ABSORBS.get(c, (f["kind"],))), None)
            else:
                cls = None
            hist["fail:%s" % (cls or "UNCLASSIFIED")] += 1
            failures.append({"case": {"scenario": scn, "target": f["target"]}, "what": f["what"], "class": cls})
    return {"evaluations": len(plans), "distinct_nontrivial": len(seen),
            "rule": "generated sync scenarios (truth kind x kinds given x target pre-state x placement x method/function x "
                    "API / command line / its entry point in-process; a second file of the truth's kind, file names of their own, "
                    "option order, same-named stand-ins (in except handlers; rarely in statements that open no scope) and forward "
                    "declarations (of class targets; rarely of function targets), receiver and parameter style, carried bodies; "
                    "a definition of the target's simple name below the top level (method / nested class / nested function), sibling "
                    "definitions whose docstrings hold tabs inside lines, %, braces, backslashes, prose with %, braces, backslashes, "
                    "target files of zero statements (blank lines / comments only), histories in which the KIND named as truth "
                    "alternates after the regular runs while no file is edited, histories in which the SET of kinds given varies "
                    "(all three / the truth and one other) for truths with and without a return entry (`-> None` with a documented "
                    "`:returns:` included); "
                    "plus 1 in 25 scenarios more that carry the shape of a recorded finding, plus 1 in 8 more of the history stratum, plus 1 in 8 more of the kind-set history stratum); "
                    "non-trivial = distinct scenario shape with at least one target on which the property held",
            "failures": failures, "histogram": dict(hist), "samples": samples}


def check_scenario(case, judge):
    scn = case["scenario"]
    res = L.run_scenario(scn, record=(scn["via"] != "cli"))
    fails = [f for f in judge(res) if case.get("target") in (None, f["target"], "*")]
    return (not fails), "; ".join(f["what"] for f in fails[:3])
