"""Correspondence family `docparse`: docstring_parsers (style detection, ReST scanner and parser, _set_name_and_type),
emitter_utils.interpolate_defaults and parse.docstring vs coq/model/DocParse.v; the specification printer
`rest_text_of` vs the real emit.docstring; and `oracle_rest`, the ReST part of property C01 evaluated on the
implementation and classified by coq/model/C01Spec.v."""
import collections
import copy
from collections import OrderedDict

from common import Sym, dumps, loads, opt, outcome, impl, is_ascii_text, run_model, unhx
import gen_text as G
import gen_ir
import irwire

NAME = "docparse"

FLAG_GRID = [(it, ww, prop, edd) for it in (False, True) for ww in (True, False)
             for prop in (True, False) for edd in (True, False)]


# ------------------------------------------------------------------ JSON-able IRs
def ir_to_json(ir):
    """IR dict -> plain JSON-able structure keeping the order of parameters"""
    return {"name": ir.get("name"), "type": ir.get("type"), "doc": ir.get("doc"),
            "params": [[k, dict(v)] for k, v in ir["params"].items()],
            "returns": None if ir.get("returns") is None else dict(ir["returns"]["return_type"])}


def ir_from_json(j):
    return {"name": j["name"], "type": j["type"], "doc": j["doc"],
            "params": OrderedDict((k, dict(v)) for k, v in j["params"]),
            "returns": None if j["returns"] is None else OrderedDict((("return_type", dict(j["returns"])),))}


# ------------------------------------------------------------------ text generators
def emitted(rng, style=None, clean=None, word_wrap=None, emit_default_doc=None):
    """(text, tags, ir) produced by the REAL emitter from a generated IR, or None when the emitter raises"""
    m = impl()
    clean = (rng.random() < 0.4) if clean is None else clean
    ir, tags = gen_ir.gen_ir(rng, clean=clean)
    style = style or "rest"
    ww = (rng.random() < 0.5) if word_wrap is None else word_wrap
    edd = (rng.random() < 0.7) if emit_default_doc is None else emit_default_doc
    try:
        text = m.emit.docstring(copy.deepcopy(ir), docstring_format=style, word_wrap=ww, emit_default_doc=edd)
    except Exception:  # noqa
        return None
    tags = ["emitted:" + style, "clean" if clean else "general", "ww:%d" % ww, "edd:%d" % edd] + \
           [t for t in tags if t.startswith(("params:", "returns:"))]
    return text, tags, ir


HAND_TYPES = ["int", "str", "float", "bool", "Optional[int]", "Optional[str]", "List[str]", "dict", "**dict",
              "Union[int, str]", "Literal['a', 'b']", "np.ndarray", "int, optional", "str, optional", "Tuple[int, int]",
              "Callable[[int], str]", "object", "Any"]


def hand_value_text(rng):
    v = G.value(rng)
    s = str(v)
    if isinstance(v, str) and not v.startswith("```") and rng.random() < 0.6:
        s = '"%s"' % v if rng.random() < 0.7 else "'%s'" % v
    return s


def hand_prose(rng):
    r = rng.random()
    if r < 0.55:
        d = G.clean_prose(rng)
    elif r < 0.85:
        d = G.prose(rng)
    else:
        d = rng.choice(["(Optional) the thing.", "Optional, the thing.", "", "x", "Defaults", "the default.",
                        "a: b.", "see :param other: for more.", "type: int."])
    if rng.random() < 0.45:
        d += ("" if d.endswith((".", ",")) or not d or rng.random() < 0.3 else ".") + " " + \
             rng.choice(G.ANNOUNCE) + hand_value_text(rng) + rng.choice(["", ".", ". More text.", ")."])
    if rng.random() < 0.25:
        # continuation lines, indented
        ind = rng.choice(["    ", "  ", "        ", "\t", ""])
        d += "".join("\n" + ind + G.clean_prose(rng) for _ in range(rng.randint(1, 2)))
    return d


def handwritten(rng):
    """a docstring in the style people write by hand"""
    ind = rng.choice(["", "", "    ", "        "])
    lines = []
    nsum = rng.choice([0, 1, 1, 1, 2, 3])
    summary = [G.clean_prose(rng, terminal=rng.choice([".", ""])) for _ in range(nsum)]
    names, used = [], set()
    for _ in range(rng.choice([0, 1, 1, 2, 2, 3, 4])):
        n = G.ident(rng)
        while n in used:
            n = G.ident(rng)
        used.add(n)
        names.append(n)
    if rng.random() < 0.25:
        names.append(rng.choice(["**kwargs", "kwargs", "*args", "**data_loader_kwargs", "model_kwargs", "*"]))
    entries = []
    for n in names:
        kw = rng.choice([":param", ":param", ":param", ":param", ":cvar", ":ivar", ":var"])
        has_doc = rng.random() < 0.9
        has_typ = rng.random() < 0.75
        e = []
        if has_doc:
            e.append("%s %s: %s" % (kw, n, hand_prose(rng)))
        if has_typ:
            t = rng.choice(HAND_TYPES)
            q = rng.random()
            e.append(":type %s: %s" % (n, "```%s```" % t if q < 0.7 else "`%s`" % t if q < 0.73 else t))
        if rng.random() < 0.15:
            e.reverse()
        entries.append(e)
    if rng.random() < 0.15 and len(entries) > 1:
        # out of order: all prose lines, then all type lines
        entries = [[l for e in entries for l in e if not l.startswith(":type")],
                   [l for e in entries for l in e if l.startswith(":type")]]
    ret = []
    r = rng.random()
    if r < 0.6:
        if rng.random() < 0.85:
            ret.append("%s %s" % (rng.choice([":return:", ":returns:", ":return", ":returns"]), hand_prose(rng)))
        if rng.random() < 0.7:
            t = rng.choice(HAND_TYPES)
            ret.append("%s %s" % (rng.choice([":rtype:", ":rtype"]), "```%s```" % t if rng.random() < 0.6 else t))
        if rng.random() < 0.1:
            ret.reverse()
    blocks = ["\n".join(summary)] if summary else []
    sep = rng.choice(["\n\n", "\n"])
    for e in entries:
        if e:
            blocks.append("\n".join(e))
    if ret:
        blocks.append("\n".join(ret))
    if rng.random() < 0.1:
        rng.shuffle(blocks)
    text = sep.join(blocks)
    text = "\n".join((ind + l if l.strip() else l) for l in text.split("\n"))
    return rng.choice(["\n", "", "\n    "]) + text + rng.choice(["\n", "", "\n    ", "\n\n"])


REST_TOKENS = (":param", ":cvar", ":ivar", ":var", ":type", ":return", ":rtype")

VOCAB = [":param", ":type", ":return", ":returns:", ":rtype:", ":rtype", ":cvar", ":ivar", ":var", ":", " ", " ", "\n",
         "x", "y", "name", "```", "`", "**", "*", "kwargs", "Defaults to ", "defaults to ", "Default:", "5", "-1", ".",
         ",", "None", "int", "str", "Optional", "(Optional)", ", optional", "dict", "Optional[", "]", "[", "(", ")",
         "\"", "'", "a.b", "0.5", "True", "    ", "\t", ":param x:", ":type x:", "Args:", "Returns:",
         "Parameters\n----------", "Returns\n-------", "Kwargs:", "Raises:"]


def malformed(rng):
    r = rng.random()
    if r < 0.45:
        t = "".join(rng.choice(VOCAB) for _ in range(rng.randint(0, 14)))
        if rng.random() < 0.7 and not any(k in t for k in REST_TOKENS):
            t += rng.choice(REST_TOKENS) + "".join(rng.choice(VOCAB) for _ in range(rng.randint(0, 5)))
        return t
    if r < 0.7:
        t = handwritten(rng) if rng.random() < 0.5 else (emitted(rng) or ("", None, None))[0]
        return t[:rng.randint(0, len(t))] if t else ""
    if r < 0.85:
        # tokens without names / without colons
        return rng.choice(["", "\n"]) + "\n".join(
            rng.choice([":param", ":param:", ":param :", ":type", ":type:", ":return", ":returns", ":rtype", ":param x",
                        ":type x", ":param x y: z", ":param  x: z", ":param x : z", ":var", ":cvar:", ":ivar x:",
                        ":param: d. Defaults to 5", ":type: int", ":param *: star", ":param x:", ":type x:",
                        ":returns:", ":rtype:", ":param **kw: k", ":type **kw: **dict"])
            for _ in range(rng.randint(1, 5)))
    return G.junk_line(rng, 60)


def rand_gparam(rng):
    p = {}
    r = rng.random()
    if r < 0.85:
        p["doc"] = hand_prose(rng)
    elif r < 0.9:
        p["doc"] = None
    v = G.value(rng)
    if rng.random() < 0.75:
        p["typ"] = G.consistent_typ(rng, v, allow_none=False) if rng.random() < 0.7 else rng.choice(HAND_TYPES + [None])
    if rng.random() < 0.6:
        p["default"] = v if rng.random() < 0.85 else rng.choice(["```(None)```", "None", '"x"', "'y'", "```[1]```", ""])
    return p


# ------------------------------------------------------------------ generation
def gen(rng, n, tier="quick"):
    cases = []

    def add(fn, args, *tags):
        cases.append({"fam": NAME, "fn": fn, "args": args, "tags": list(tags)})

    def add_text(text, tags, scan=True):
        if not is_ascii_text(text):
            return
        if scan:
            add("scan_rest", [text], *tags)
        add("detect_style", [text], *tags)
        if not any(t in text for t in REST_TOKENS) and text and rng.random() < 0.9:
            return  # another style: its scanner and parser belong to another layer (the model answers Unmodelled)
        flags = FLAG_GRID if rng.random() < 0.15 else rng.sample(FLAG_GRID, 3)
        for f in flags:
            add("parse_docstring", [text] + list(f), *tags)
        if rng.random() < 0.2:
            add("parse_dot_docstring", [text, rng.random() < 0.5, rng.random() < 0.5, rng.random() < 0.5], *tags)

    i = 0
    while len(cases) < n:
        i += 1
        r = rng.random()
        if r < 0.30:
            e = emitted(rng, "rest")
            if e is None:
                add("detect_style", [None], "emitter-raised")
                continue
            text, tags, ir = e
            add_text(text, tags)
            if rng.random() < 0.6:
                add("rest_text_of", [ir_to_json(ir)], *tags)
        elif r < 0.36:
            e = emitted(rng, rng.choice(["numpydoc", "google"]))
            if e is None:
                continue
            text, tags, ir = e
            if is_ascii_text(text):
                add("detect_style", [text], *tags)
                if rng.random() < 0.1:
                    add("parse_docstring", [text] + list(rng.choice(FLAG_GRID)), *tags)
        elif r < 0.42:
            ir, tags = gen_ir.gen_ir(rng, clean=rng.random() < 0.5)
            if rng.random() < 0.3:
                ir = _tweak(rng, ir)
            # the printer the theorems are stated against, and the claim that word_wrap changes nothing where
            # C01Spec.fill_noop holds (the model answers Unmodelled elsewhere)
            add("rest_text_of" if rng.random() < 0.5 else "rest_text_ww", [ir_to_json(ir)], "spec-printer",
                *[t for t in tags if t.startswith(("params:", "returns:"))])
        elif r < 0.70:
            add_text(handwritten(rng), ["handwritten"])
        elif r < 0.85:
            add_text(malformed(rng), ["malformed"])
        elif r < 0.93:
            add("interpolate_defaults", [rand_gparam(rng), rng.random() < 0.3, rng.random() < 0.5], "unit")
        else:
            name = rng.choice([None, "", "x", "kwargs", "**kwargs", "*args", "model_kwargs", "**", "*"]) \
                if rng.random() < 0.5 else G.ident(rng, allow_kwargs=True)
            add("set_name_and_type", [name, rand_gparam(rng), rng.random() < 0.5, rng.random() < 0.5], "unit")
    cases = cases[:n] if len(cases) > n else cases
    # texts emitted (all three styles) from clean IRs whose summary / prose holds a section-header look-alike of some style
    # (`Note:`, `Yields:`, `See Also:`, `:raises E:` ...): style detection on all of them, scanner and parser on the ReST ones
    import fam_docparseng
    m = impl()
    for kind, ir in fam_docparseng.gen_header_word_irs(rng, max(4, n // 25)):
        style = rng.choice(["rest", "rest", "numpydoc", "google"])
        try:
            text = m.emit.docstring(copy.deepcopy(ir), docstring_format=style, word_wrap=rng.random() < 0.2,
                                    emit_default_doc=rng.random() < 0.75)
        except Exception:  # noqa
            continue
        add_text(text, ["emitted:" + style, kind], scan=(style == "rest"))
    return cases


# ------------------------------------------------------------------ wire
def request(case):
    fn, a = case["fn"], case["args"]
    if fn == "detect_style":
        return dumps([Sym(fn), opt(a[0])])
    if fn == "scan_rest":
        return dumps([Sym(fn), a[0]])
    if fn == "parse_docstring":
        return dumps([Sym(fn), opt(a[0]), a[1], a[2], a[3], a[4]])
    if fn == "parse_dot_docstring":
        return dumps([Sym(fn), a[0], a[1], a[2], a[3]])
    if fn == "interpolate_defaults":
        return dumps([Sym(fn), irwire.enc_gparam(a[0]), a[1], a[2]])
    if fn == "set_name_and_type":
        return dumps([Sym(fn), opt(a[0]), irwire.enc_gparam(a[1]), a[2], a[3]])
    if fn in ("rest_text_of", "rest_text_ww"):
        return dumps([Sym(fn), irwire.enc_ir(ir_from_json(a[0]))])
    raise KeyError(fn)


def _style_sym(docstring):
    """the cascade is inside parse_docstring; observe it through _scan_phase/_parse_phase dispatch"""
    m = impl()
    dp = m.docstring_parsers
    seen = {}
    orig_scan = dp._scan_phase

    def spy_scan(d, style=dp.Style.rest):
        seen["style"] = style
        raise _Stop()

    dp._scan_phase = spy_scan
    try:
        try:
            dp.parse_docstring(docstring)
        except _Stop:
            pass
    finally:
        dp._scan_phase = orig_scan
    if "style" not in seen:
        # `if not docstring: return ir` came first; the cascade itself still ran: recompute it the way the code does
        from functools import partial
        from operator import contains
        T = m.docstring_utils.TOKENS
        if docstring is None or any(map(partial(contains, docstring), T.rest)):
            return "rest"
        if any(map(partial(contains, docstring), T.google)):
            return "google"
        return "numpydoc"
    return seen["style"].name


class _Stop(Exception):
    pass


def run_impl(case):
    m = impl()
    fn, a = case["fn"], copy.deepcopy(case["args"])
    dp = m.docstring_parsers
    if fn == "detect_style":
        return dumps(Sym(_style_sym(a[0])))
    if fn == "scan_rest":
        r = dp._scan_phase(a[0], style=dp.Style.rest)
        return dumps([[bool(b), s] for b, s in r] if all(b is True or b is False for b, _ in r) else Sym("non-bool-flag"))
    if fn == "parse_docstring":
        text, it, ww, prop, edd = a
        return dumps(outcome(lambda: dp.parse_docstring(text, infer_type=it, word_wrap=ww, emit_default_prop=prop,
                                                        emit_default_doc=edd), irwire.enc_ir))
    if fn == "parse_dot_docstring":
        text, it, prop, edd = a
        return dumps(outcome(lambda: m.parse.docstring(text, infer_type=it, emit_default_prop=prop, emit_default_doc=edd),
                             irwire.enc_ir))
    if fn == "interpolate_defaults":
        p, req, edd = a
        return dumps(outcome(lambda: m.emitter_utils.interpolate_defaults(("x", p), require_default=req,
                                                                          emit_default_doc=edd)[1], irwire.enc_gparam))
    if fn == "set_name_and_type":
        name, p, it, ww = a
        return dumps(outcome(lambda: dp._set_name_and_type((name, p), infer_type=it, word_wrap=ww),
                             lambda r: [r[0], irwire.enc_gparam(r[1])]))
    if fn in ("rest_text_of", "rest_text_ww"):
        ir = ir_from_json(a[0])
        return dumps(outcome(lambda: m.emit.docstring(ir, docstring_format="rest", word_wrap=fn == "rest_text_ww",
                                                      emit_default_doc=True), lambda s: s))
    raise KeyError(fn)


def nontrivial(case):
    fn, a = case["fn"], case["args"]
    if fn in ("scan_rest", "parse_docstring", "parse_dot_docstring"):
        return a[0] is not None and (":param" in a[0] or ":return" in a[0] or ":type" in a[0])
    if fn == "detect_style":
        return bool(a[0])
    if fn in ("rest_text_of", "rest_text_ww"):
        return bool(a[0]["params"]) or a[0]["returns"] is not None
    return True


# ------------------------------------------------------------------ property C01, ReST part
def _tweak(rng, ir):
    """push a generated IR towards the boundary of the proved region (one or two local changes)"""
    names = list(ir["params"])
    for _ in range(rng.choice([1, 1, 2, 3])):
        k = rng.choice(["doc-optional", "doc-blank", "doc-multiline", "summary-blank", "drop-typ", "drop-doc",
                        "any-default", "kwargs-name", "return-default", "doc-spicy", "kwargs-dict", "quoted-str",
                        "none-spelling", "return-shape", "doc-announce", "typ-simple", "drop-default"])
        if k == "summary-blank":
            ir["doc"] = rng.choice([" ", "\n", "  "]) + ir["doc"] if rng.random() < 0.5 else ir["doc"] + rng.choice([" ", "\n"])
            continue
        if k == "return-default" and ir["returns"]:
            ir["returns"]["return_type"]["default"] = rng.choice([5, "x", None, "```(None)```", 0.5, True, "```x```"])
            continue
        if k == "return-shape":
            r = {}
            if rng.random() < 0.6:
                r["doc"] = rng.choice([G.clean_prose(rng), " padded.", "two\nlines.", "Optional thing.", "Defaults to 5"])
            if rng.random() < 0.6:
                r["typ"] = rng.choice(G.SCALAR_TYPES + ["Optional[int]", "np.ndarray"])
            ir["returns"] = OrderedDict((("return_type", r),))
            continue
        if not names:
            continue
        n = rng.choice(names)
        p = ir["params"][n]
        if k == "doc-optional" and p.get("doc"):
            p["doc"] = rng.choice(["Optional ", "(Optional) ", "Optional, ", "Optionally "]) + p["doc"]
        elif k == "doc-blank" and p.get("doc"):
            p["doc"] = rng.choice([" " + p["doc"], p["doc"] + " ", p["doc"] + "\n", "\t" + p["doc"]])
        elif k == "doc-multiline" and p.get("doc"):
            p["doc"] = p["doc"] + "\n" + G.clean_prose(rng)
        elif k == "drop-typ":
            p.pop("typ", None)
        elif k == "drop-doc":
            p.pop("doc", None)
        elif k == "drop-default":
            p.pop("default", None)
        elif k == "any-default":
            p["default"] = G.value(rng)
        elif k == "quoted-str":
            p["default"] = rng.choice(['"x"', "'y'", "'\"z\"'", '"', "''", "```x```", "`", "a b", " pad", "pad "])
            if rng.random() < 0.5:
                p["typ"] = rng.choice(["str", "Optional[str]", "Union[str, int]"])
        elif k == "none-spelling":
            p["default"] = rng.choice([None, "None", "```(None)```", "```None```"])
        elif k == "typ-simple":
            p["typ"] = rng.choice(G.SCALAR_TYPES)
        elif k == "doc-spicy":
            p["doc"] = G.prose(rng, spice=0.5)
        elif k == "doc-announce":
            p["doc"] = (p.get("doc") or "x.") + " " + rng.choice(G.ANNOUNCE) + rng.choice(["5", "x", "None", "'a'"])
        elif k in ("kwargs-name", "kwargs-dict"):
            new = rng.choice(["kwargs", "model_kwargs", "data_loader_kwargs"])
            if new in ir["params"]:
                continue
            if k == "kwargs-dict":
                p["typ"] = rng.choice(["dict", "Optional[dict]"])
                if rng.random() < 0.5:
                    p["default"] = rng.choice([None, "```(None)```"])
            ir["params"] = OrderedDict((new if key == n else key, v) for key, v in ir["params"].items())
            names = list(ir["params"])
    return ir


def _c01_case(rng, clean=None):
    ir, tags = gen_ir.gen_ir(rng, clean=(rng.random() < 0.45) if clean is None else clean)
    if rng.random() < 0.35:
        ir = _tweak(rng, ir)
        tags = tags + ["tweaked"]
    return {"ir": ir_to_json(ir), "word_wrap": rng.random() < 0.3, "keep_sentence": rng.random() < 0.5}, tags


def _c01_header_case(rng):
    """a case whose IR is of the proved shape except that the summary, one parameter's prose or the return prose holds a
    section-header look-alike of some docstring style (fam_docparseng.gen_header_word_irs): emitted as ReST the text must
    be read back as ReST whatever such words it holds"""
    import fam_docparseng
    kind, ir = fam_docparseng.gen_header_word_irs(rng, 1)[0]
    return {"ir": ir_to_json(ir), "word_wrap": rng.random() < 0.15, "keep_sentence": rng.random() < 0.5}, [kind]


def _holds_recorded_rest_token(j):
    """does a text field of the (JSON) IR hold one of the ReST field tokens (as recorded in REST_TOKENS above)?"""
    fields = [j.get("doc")]
    for q in [v for _, v in j["params"]] + ([j["returns"]] if j["returns"] else []):
        fields += [q.get("doc"), q.get("typ")]
    return any(t in f for f in fields if isinstance(f, str) for t in REST_TOKENS)


def c01_rest_impl(case):
    """evaluate the ReST part of C01 at one IR on the real code.
    returns (holds, what, parsed IR or None).  Comparison itself is done by the extracted relations (see oracle)."""
    m = impl()
    ir = ir_from_json(case["ir"])
    try:
        text = m.emit.docstring(copy.deepcopy(ir), docstring_format="rest", word_wrap=case["word_wrap"],
                                emit_default_doc=True)
    except Exception as e:  # noqa
        return False, "emit.docstring raised %s" % type(e).__name__, None
    st = _style_sym(text)
    if st != "rest":
        return False, "emitted ReST text is read as %s" % st, None
    try:
        got = m.parse.docstring(text, emit_default_doc=case["keep_sentence"])
    except Exception as e:  # noqa
        return False, "parse.docstring raised %s" % type(e).__name__, None
    return True, "", got


def c01_rest_check_case(case):
    """replay of one oracle case {ir, word_wrap, keep_sentence}: (holds, what)"""
    ok, what, got = c01_rest_impl(case)
    if not ok:
        return False, what
    o = loads(run_model([dumps([Sym("c01_same_interface"), case["keep_sentence"],
                                irwire.enc_ir(ir_from_json(case["ir"])), irwire.enc_ir(got)])])[0])
    if o == "bad-request":
        return False, "parsed IR not encodable for comparison"
    names = ["summary", "parameters (names, order, types, prose, defaults)", "return entry"]
    bad = [nm for nm, x in zip(names, o) if x != "true"]
    return (not bad), ("differs in: " + "; ".join(bad) if bad else "")


def oracle_rest(rng, n):
    """prop-module oracle format: emit with the real emitter, parse with the real parser, compare with the extracted
    `same_interface`, classify failures with the extracted `finding_class_C01_rest`."""
    cases, tagl = [], []
    for _ in range(n):
        c, tags = _c01_case(rng)
        cases.append(c)
        tagl.append(tags)
    for _ in range(max(1, n // 5)):
        c, tags = _c01_header_case(rng)
        cases.append(c)
        tagl.append(tags)
    wire = [irwire.enc_ir(ir_from_json(c["ir"])) for c in cases]
    cls_out = run_model([dumps([Sym("c01_class_rest"), c["word_wrap"], c["keep_sentence"], w])
                         for c, w in zip(cases, wire)])
    hold_out = run_model([dumps([Sym("c01_holds_rest"), c["keep_sentence"], w]) for c, w in zip(cases, wire)])
    impl_res = [c01_rest_impl(c) for c in cases]
    cmp_idx = [i for i, r in enumerate(impl_res) if r[2] is not None]
    cmp_out = run_model([dumps([Sym("c01_same_interface"), cases[i]["keep_sentence"], wire[i],
                                irwire.enc_ir(impl_res[i][2])]) for i in cmp_idx])
    verdict = {}
    for i, o in zip(cmp_idx, cmp_out):
        e = loads(o)
        if e == "bad-request":
            verdict[i] = (False, "parsed IR not encodable for comparison")
            continue
        parts = [x == "true" for x in e]
        names = ["summary", "parameters (names, order, types, prose, defaults)", "return entry"]
        bad = [nm for nm, ok in zip(names, parts) if not ok]
        verdict[i] = (not bad, "differs in: " + "; ".join(bad) if bad else "")
    failures, hist, seen, disagree = [], collections.Counter(), set(), []
    for i, c in enumerate(cases):
        ce = loads(cls_out[i])
        header = tagl[i][0] if tagl[i] and tagl[i][0].startswith("header-words") else None
        if ce == "out-of-domain" and header and not _holds_recorded_rest_token(c["ir"]):
            # these IRs are inside the domain by construction unless a field holds a ReST field token; the model's domain
            # follows the token table of the tree under test, the domain of the property does not
            ce = "none"
            hist["header-words:domain-by-recorded-tokens"] += 1
        if ce == "out-of-domain":
            hist["out-of-domain"] += 1
            continue
        cls = None if ce == "none" else unhx(ce[1])
        ok, what, got = impl_res[i]
        if ok:
            ok, what = verdict[i]
        if header:
            hist[header + ":" + ("holds" if ok else "fails") + ":" + (cls or "in-guard")] += 1
        if cls == "unmodelled":
            hist["skipped-unmodelled:" + ("holds" if ok else "fails")] += 1
            continue
        hist[("holds" if ok else "fails") + ":" + (cls or "in-guard")] += 1
        if cls is None and (c["ir"]["params"] or c["ir"]["returns"]):
            seen.add(dumps([wire[i], c["keep_sentence"]]))
        mh = hold_out[i]
        if not c["word_wrap"] and mh != "unmodelled" and (mh == "true") != ok:
            disagree.append({"case": c, "model_holds": mh, "impl_holds": ok, "what": what, "class": cls})
        if not ok:
            failures.append({"case": c, "what": what, "class": cls})
    return {
        "evaluations": len(cases),
        "distinct_nontrivial": len(seen),
        "rule": "IRs from gen_ir (clean and general strata, plus clean IRs whose summary / prose holds a section-header look-alike "
                "of any docstring style) x emitter word_wrap x parser emit_default_doc; emitted by the "
                "real emit.docstring(rest), parsed by the real parse.docstring, compared by the extracted same_interface; "
                "non-trivial = distinct IR with >= 1 parameter or a return entry inside guard_C01_rest",
        "failures": failures,
        "model_impl_property_disagreements": disagree,
        "histogram": dict(hist),
        "samples": [cases[i] for i in range(0, min(len(cases), 40), 8)],
    }
