"""Correspondence family `sync`: the control logic of conformance._conform_filename + emit.file replayed by the Coq
model (Sync.conform_tab over FS.emit_file) on the answers recorded from the real run, with and without I/O faults;
and the CLI decision table of __main__.main (Cli.decide_sync) against the real command line."""
import os
import tempfile
import shutil

from common import Sym, dumps, opt, impl
import sync_lab as L

NAME = "sync"


def _oc(x, payload=False):
    if x is None:
        return [Sym("ok"), ""] if payload else [Sym("ok"), Sym("unit")]
    if x[0] == "ok":
        return [Sym("ok"), x[1] if payload and len(x) > 1 else (Sym("unit") if not payload else "")]
    return [Sym("err"), Sym(x[1])]


def gen(rng, n, tier="quick"):
    """runs generated scenarios on the real code NOW (with and without injected I/O faults) and yields one case per
    recorded _conform_filename call: the request carries the layers' recorded answers, `impl` what really happened;
    plus CLI argument shapes"""
    cases = []
    nscn = max(4, n // 6)
    for i in range(nscn):
        scn = L.gen_scenario(rng, runs=2)
        fault = None
        if rng.random() < 0.45 and scn["targets"]:
            tk = rng.choice(sorted(scn["targets"]))
            fault = {"target": L.file_of(tk, scn), "op_index": rng.randint(0, 5), "k": rng.choice([0, 1, 7, 40, 10 ** 6])}
        for req, got, tags in _run_scenario(scn, fault):
            cases.append({"fam": NAME, "fn": "conform", "args": [req], "impl": got, "tags": tags, "scenario": scn, "fault": fault})
    for i in range(max(8, n // 5)):
        shape = {"truth": rng.choice(L.KINDS), "files": {k: rng.choice([0, 1, 1, 2]) for k in L.KINDS},
                 "names": {k: rng.choice([0, 1, 1, 2]) for k in L.KINDS}, "exists": rng.random() < 0.8}
        if rng.random() < 0.35:
            # few files in all (the acceptance rule counts files, not options): 0, 1 or 2 over the three kinds
            shape["files"] = {k: 0 for k in L.KINDS}
            for _ in range(rng.choice([0, 1, 1, 1, 2])):
                shape["files"][rng.choice(L.KINDS)] += 1
        cases.append({"fam": NAME, "fn": "cli_sync", "args": [shape], "tags": ["cli-shape"]})
    # the shapes of recorded findings that the regular draws reach only rarely (the rewrite hitting a same-named class in a
    # statement that opens no scope; _default_options raising on a forward-declared function target): one scenario each per
    # 12 regular ones, from a generator of their own (drawn last, so the cases above do not depend on them)
    import random
    krng = random.Random(rng.random())
    for j in range(max(2, nscn // 12 * 2)):
        scn = L.gen_known_shape(krng, L.KNOWN_SHAPES[j % len(L.KNOWN_SHAPES)], runs=2)
        for req, got, tags in _run_scenario(scn, None):
            cases.append({"fam": NAME, "fn": "conform", "args": [req], "impl": got, "tags": tags + ["recorded-finding-shape"],
                          "scenario": scn, "fault": None})
    return cases


def _run_scenario(scn, fault):
    """returns list of (request, impl-result, tags), one per recorded call"""
    root = tempfile.mkdtemp(prefix="doctrans-verif-sync.")
    out = []
    try:
        proj = L.build_project(scn, root)
        paths = proj["paths"]
        for run in range(scn["runs"]):
            rec = L.Recorder()
            fo = None
            if fault is not None and run == 0:
                fo = L.Fault(fault["target"], fault["op_index"], fault["k"])
            L.run_api(scn, paths, rec, fo)
            for c in rec.calls:
                if c["emit"] is None and c["parse"] == ("ok",) and c["found"] and c["result"][0] == "err":
                    # the expression emit_func(ir, **_default_options(node, ...)()) raised while its arguments were being
                    # evaluated (get_function_type on the found node), before the emitter was entered: that is the answer of
                    # the model's `emit_k k ir (opts_of orig search k)`
                    c = dict(c, emit=("err", c["result"][1]))
                an = [_oc(c["emit"]), _oc(c["parse"]), bool(c["found"]), bool(c["type_ok"]), bool(c["cmp"]), bool(c["replaced"]),
                      _oc(c["render"], True), _oc(c["render"], True)]
                rel = os.path.basename(c["file"])
                fsw = [[rel, c["old"]]] if c["old"] is not None else []
                if c.get("tmp_old") is not None:
                    fsw.append([rel + ".doctrans-tmp", c["tmp_old"]])   # left behind by an earlier, killed run
                fired = fo is not None and fo.filename == c["file"] and fo.fired
                fw = (fo.wire() or Sym("nofault")) if fired else Sym("nofault")
                req = dumps([Sym("conform"), fsw, rel, c["search"], Sym(c["kind"]), an, fw])
                res = c["result"]
                got = dumps([opt(c["new"]), opt(c.get("tmp_new")),
                             [Sym("ok"), bool(res[1])] if res[0] == "ok" else [Sym("err"), Sym(res[1])],
                             [l.replace(c["file"], rel) for l in c["stdout"].split("\n") if l]])
                branch = ("create" if c["old"] is None else "append" if not c["found"] else
                          "options-raise" if (c["emit"] or ("ok",))[0] == "err" and c["result"][0] == "err" and c["render"] is None else
                          "same" if c["cmp"] else
                          "replace" if c["replaced"] else "found-not-replaced")
                out.append((req, got, ["run%d" % run, "kind:" + c["kind"], "branch:" + branch,
                                       "fault:" + ("%s-%s" % (fo.fired_op[0], fo.fired_op[1]) if fired else "none")]))
                if fired:
                    fo = None
    finally:
        shutil.rmtree(root, ignore_errors=True)
    return out


def request(case):
    if case["fn"] == "conform":
        return case["args"][0]
    shape = case["args"][0]
    c = lambda n: opt(n if n else None)  # noqa: E731
    return dumps([Sym("decide_sync"), Sym(shape["truth"])] + [c(shape["files"][k]) for k in L.KINDS]
                 + [c(shape["names"][k]) for k in L.KINDS] + [bool(shape["exists"])])


def run_impl(case):
    if case["fn"] == "conform":
        return case["impl"]
    return dumps(_cli_shape_impl(case["args"][0]))


def _cli_shape_impl(shape):
    """run the real CLI on a scratch project of that argument shape; decision = reject (exit 2, nothing touched) |
    run; plus the arg-level error kind observed and whether names were complete"""
    root = tempfile.mkdtemp(prefix="doctrans-verif-cli.")
    try:
        import random
        scn = L.gen_scenario(random.Random(1), runs=1, allow_known=False)
        scn["truth"] = shape["truth"]
        scn.update(body=None, wide=None, truth_edit=False, with_returns=False, files=None, prose_special=None, alternate=None)
        scn["given"] = list(L.KINDS)
        scn["targets"] = {k: {"pre": "agreeing", "n_sur": 0, "position": "after", "trailing_newline": True, "sur_seed": 1, "members": 0}
                          for k in L.KINDS if k != shape["truth"]}
        proj = L.build_project(scn, root)
        paths = proj["paths"]
        if not shape["exists"]:
            os.remove(paths[shape["truth"]])
        optn = {"argparse_function": ("--argparse-function", "--argparse-function-name"), "class": ("--class", "--class-name"),
                "function": ("--function", "--function-name")}
        argv = ["sync", "--truth", shape["truth"]]
        for k in L.KINDS:
            for j in range(shape["files"][k]):
                argv += [optn[k][0], paths[k] if j == 0 else os.path.join(root, "%s_%d.py" % (k, j))]
            for j in range(shape["names"][k]):
                argv += [optn[k][1], scn["names"][k]]
        before = L.snapshot(root)
        r = L.run_cli(argv)
        after = L.snapshot(root)
        if r["rc"] == 2 and "usage:" in r["stderr"]:
            decision = Sym("reject") if before == after else Sym("reject-but-touched")
        else:
            decision = Sym("run")
        err = None
        if r["rc"] not in (0, 2):
            last = [l for l in r["stderr"].strip().split("\n") if l][-1] if r["stderr"].strip() else ""
            err = last.split(":")[0].strip()
        names_complete = all(not (shape["files"][k] and not shape["names"][k]) for k in L.KINDS) and bool(shape["names"][shape["truth"]])
        arg_err = opt(Sym(err) if err in ("TypeError", "IndexError") and not names_complete else None)
        if decision == "reject":
            # the model reports the arg-level error independently of the decision: recompute it the same way
            te = None
            if not shape["names"][shape["truth"]]:
                te = "TypeError"
            else:
                for k in L.KINDS:
                    if shape["files"][k] and not shape["names"][k]:
                        te = "TypeError"
                        break
            arg_err = opt(Sym(te) if te else None)
        return [decision, arg_err, bool(names_complete)]
    finally:
        shutil.rmtree(root, ignore_errors=True)


def nontrivial(case):
    return True
