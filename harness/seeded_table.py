#!/usr/bin/env python3
"""Development helper: regenerate the table of DESIGN.md section 12.7 (between the SEEDED-TABLE markers) from
seeded/RESULTS.json and the seeded changes themselves.   python3 harness/seeded_table.py"""
import json
import os
import re

HERE = os.path.dirname(os.path.abspath(__file__))
VERIF = os.path.dirname(HERE)


def touched(patch):
    out = []
    for m in re.finditer(r"^\+\+\+ b/(\S+)", patch, re.M):
        out.append(m.group(1).replace("doctrans/", ""))
    fn = re.findall(r"^@@ .*? @@ (?:def|class) (\w+)", patch, re.M)
    return ", ".join(out) + ((" (" + ", ".join(dict.fromkeys(fn)) + ")") if fn else "")


def main():
    res = json.load(open(os.path.join(VERIF, "seeded", "RESULTS.json")))
    rows = []
    ids = sorted((d for d in os.listdir(os.path.join(VERIF, "seeded")) if os.path.isdir(os.path.join(VERIF, "seeded", d))),
                 key=lambda s: (s.split("-")[0], int(s.split("-")[1])))
    n_det = n_input = 0
    for sid in ids:
        patch = open(os.path.join(VERIF, "seeded", sid, "patch.diff")).read()
        r = res.get(sid)
        if r is None:
            rows.append("| %s | %s | not evaluated | |" % (sid, touched(patch)))
            continue
        if "error" in r:
            rows.append("| %s | %s | %s | |" % (sid, touched(patch), r["error"][:60]))
            continue
        own = r["checks"].get(r["property"], {})
        det = bool(own.get("violation"))
        n_det += det
        how = own.get("how") or ""
        n_input += how.startswith("failing-input")
        how = how.replace("correspondence-or-proof-broken: ", "correspondence broken (no failing input): ").replace(
            "failing-input", "failing input")
        rows.append("| %s | %s | %s | %s |" % (sid, touched(patch), "yes" if det else "**no**", how))
    table = "\n".join(["| seeded change | what it edits | detected by the check of its property | how |", "|---|---|---|---|"] + rows)
    table += "\n\n%d seeded changes, %d detected by the quick check of their own property, %d of them with a failing input.\n" % (
        len(ids), n_det, n_input)
    p = os.path.join(VERIF, "DESIGN.md")
    s = open(p).read()
    a, b = "<!-- SEEDED-TABLE-BEGIN -->", "<!-- SEEDED-TABLE-END -->"
    assert a in s and b in s
    s = s[:s.index(a) + len(a)] + "\n" + table + s[s.index(b):]
    open(p, "w").write(s)
    print("%d rows, %d detected, %d with failing input" % (len(ids), n_det, n_input))


if __name__ == "__main__":
    main()
