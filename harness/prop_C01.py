"""C01 — docstring round-trip fidelity in ReST, numpydoc and Google styles (composed from the ReST layer, the
numpydoc/google layer and the emit layer)."""
import fam_docparse
import fam_docparseng
import fam_docemit

ID = "C01"
COQ_PROP = "C01"
FAMILIES = [(fam_docparse, 2500, 40000), (fam_docparseng, 2500, 30000), (fam_docemit, 1500, 20000)]
TECHNIQUE = ("Coq proof (ReST: emit model -> style detection -> parse model -> same_interface under guard_C01_rest, unbounded in "
             "the number of parameters; numpydoc/google: same under guard_C01_ng, the scan link proved by induction over the parameter "
             "list in props/C01Ext.v) + differential correspondence of the emit and parse models + round-trip oracle on the real emitter/parser")
TRUSTED = [
    "modelled, not verified: ast.parse/ast.unparse on type strings (TyExpr), ast.literal_eval and float()/repr on scalar text, ASCII-only text",
    "numpydoc/google: the scan link (scanner output on the emitted text equals the expected blocks) is proved (C01_ng_scan_link); it is still "
    "evaluated in the model on every in-guard oracle point as a cross-check of extraction and reported as a violation when false; the round trip "
    "is about the specification printer text_of_o, tied to DocEmit / the real emitter by correspondence",
    "word_wrap=True emission is covered by correspondence and by the oracle (and by C18's theorems), not by the C01 round-trip theorem, which is "
    "stated for word_wrap off",
]


def _prefix(res, style):
    # points whose default text falls outside the modelled fragment of float()/literal_eval cannot be classified
    res["failures"] = [f for f in res["failures"] if not str(f.get("class") or "").endswith("unmodelled")]
    for f in res["failures"]:
        if f.get("class") is not None:
            f["class"] = "%s:%s" % (style, f["class"])
        f["case"] = dict(f["case"], style=style)
    for d in res.get("model_impl_property_disagreements", []):
        d["style"] = style
    return res


def oracle(rng, tier):
    n = 1500 if tier == "quick" else 20000
    parts = [_prefix(fam_docparse.oracle_rest(rng, n), "rest"),
             _prefix(fam_docparseng.oracle_ng(rng, n, "numpydoc"), "numpydoc"),
             _prefix(fam_docparseng.oracle_ng(rng, n, "google"), "google")]
    out = {"evaluations": 0, "distinct_nontrivial": 0, "failures": [], "model_impl_property_disagreements": [], "histogram": {},
           "samples": [], "rule": " | ".join(p["rule"] for p in parts)}
    for style, p in zip(("rest", "numpydoc", "google"), parts):
        out["evaluations"] += p["evaluations"]
        out["distinct_nontrivial"] += p["distinct_nontrivial"]
        out["failures"] += p["failures"]
        out["model_impl_property_disagreements"] += p.get("model_impl_property_disagreements", [])
        out["histogram"].update({"%s:%s" % (style, k): v for k, v in p.get("histogram", {}).items()})
        s = p.get("samples") or []
        out["samples"] += (list(s.values()) if isinstance(s, dict) else list(s))[:2]
    return out


def check_case(case):
    style = case.get("style", "rest")
    c = {k: v for k, v in case.items() if k != "style"}
    if style == "rest":
        return fam_docparse.c01_rest_check_case(c)
    ok, what = fam_docparseng.impl_roundtrip(fam_docparseng.ir_from_json(c["ir"]) if hasattr(fam_docparseng, "ir_from_json") else c["ir"], style)
    return ok, what
