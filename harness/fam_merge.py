"""Correspondence family `merge`: parser_utils.ir_merge / _join_non_none vs coq/model/Merge.v.

A case is JSON-able: IRs are *specs* (see build_ir) in which a default is tagged
["v", scalar] | ["ast", source] | ["obj", source-to-eval], and a carried body is source text.
The model is asked under an explicit iteration order for every set the code iterates; the order is part of
the case (sorted / reversed / rotated listing of the set), and the implementation's answer must equal the
model's answer under each of them (the code's real order is whatever this process's hashing gives)."""
import ast
import copy
from collections import OrderedDict

from common import Sym, dumps, outcome, impl
import gen_ir
import gen_text as G
import irwire

NAME = "merge"
NONESTR = "```(None)```"


# ------------------------------------------------------------------ specs -> real objects
def build_default(d):
    k, v = d
    if k == "v":
        return v
    if k == "ast":
        return ast.parse(v, mode="eval").body
    if k == "obj":
        return eval(v, {"__builtins__": {"set": set, "frozenset": frozenset, "bytearray": bytearray, "Ellipsis": Ellipsis}})
    raise KeyError(k)


def build_param(p):
    q = {}
    for k in ("doc", "typ"):
        if k in p:
            q[k] = p[k]
    if "default" in p:
        q["default"] = build_default(p["default"])
    return q


def build_internal(i):
    d = {}
    if "body" in i:
        d["body"] = ast.parse(i["body"]).body
    for k in ("from_name", "from_type"):
        if k in i:
            d[k] = i[k]
    return d


def build_ir(s):
    ir = {}
    for k in ("name", "type", "doc"):
        if k in s:
            ir[k] = s[k]
    ir["params"] = OrderedDict((n, build_param(p)) for n, p in s["params"])
    if "returns" in s:
        ir["returns"] = None if s["returns"] is None else OrderedDict((("return_type", build_param(s["returns"])),))
    if "_internal" in s:
        ir["_internal"] = build_internal(s["_internal"])
    return ir


# ------------------------------------------------------------------ generation
DEFAULT_POOL = [["v", None], ["v", "None"], ["v", "(None)"], ["v", NONESTR], ["v", 0], ["v", 5], ["v", -1], ["v", 2.5],
                ["v", True], ["v", "mnist"], ["v", ""], ["v", "```np.zeros(1)```"],
                ["obj", "[]"], ["obj", "[1, 2]"], ["obj", "{}"], ["obj", "{'a': 1}"], ["obj", "(1, 2)"], ["obj", "()"],
                ["obj", "set()"], ["obj", "b'x'"], ["obj", "1j"], ["obj", "Ellipsis"], ["obj", "(1, (2, 3))"], ["obj", "{1, 2}"], ["obj", "(1, [2])"], ["obj", "('[', 2)"], ["obj", "(1, {2: 3})"], ["obj", "{'a:b'}"], ["obj", "{'k': 'a:b'}"],
                ["ast", "np.zeros(1)"], ["ast", "5"], ["ast", "None"], ["ast", "'None'"], ["ast", "[1]"], ["ast", "x"]]
BODIES = ["pass", "x = 1\nreturn x", "return 5", "print('hi')\nreturn (a, b)", "if a:\n    return 1\nreturn 2"]


def spec_param(rng, tags):
    p0 = gen_ir.gen_param(rng, [])
    p = {}
    for k in ("doc", "typ"):
        r = rng.random()
        if k in p0 and r < 0.7:
            p[k] = p0[k]
        elif r < 0.8:
            p[k] = None
        elif r < 0.85:
            p[k] = ""
    r = rng.random()
    if "default" in p0 and r < 0.45:
        p["default"] = ["v", p0["default"]]
    elif r < 0.8:
        p["default"] = rng.choice(DEFAULT_POOL)
    elif r < 0.805:
        p["default"] = ["obj", "(frozenset({1}), 2)"]      # hashability not decidable from the repr: the model declines
    return p


def spec_returns(rng):
    r = rng.random()
    if r < 0.35:
        return None
    if r < 0.42:
        return "missing"
    if r < 0.5:
        return {}
    return spec_param(rng, [])


def spec_internal(rng):
    r = rng.random()
    if r < 0.45:
        return "absent"
    i = {}
    if r < 0.55:
        return i
    i["body"] = "" if r < 0.62 else rng.choice(BODIES)
    if rng.random() < 0.7:
        i["from_name"] = rng.choice(["f", "C", "__init__"])
    if rng.random() < 0.7:
        i["from_type"] = rng.choice(["static", "self", "cls"])
    return i


def gen_pair(rng):
    tags = []
    nt = rng.choice([0, 1, 2, 2, 3, 4, 6])
    names = []
    while len(names) < nt:
        n = G.ident(rng, allow_kwargs=True)
        if n not in names:
            names.append(n)
    t = {"name": rng.choice([None, "f"]), "type": "static", "doc": G.clean_prose(rng),
         "params": [[n, spec_param(rng, tags)] for n in names]}
    overlap = [n for n in names if rng.random() < 0.6]
    fresh = []
    for _ in range(rng.choice([0, 0, 1, 2, 3])):
        n = G.ident(rng, allow_kwargs=True)
        if n not in names and n not in fresh:
            fresh.append(n)
    onames = overlap + fresh
    rng.shuffle(onames)
    if rng.random() < 0.12:
        onames = []
    o = {"name": "g", "type": rng.choice(["static", "self"]), "params": [[n, spec_param(rng, tags)] for n in onames]}
    if rng.random() < 0.5:
        o["doc"] = G.clean_prose(rng)
    for s in (t, o):
        r = spec_returns(rng)
        if r != "missing":
            s["returns"] = r if r != {} else {}
        i = spec_internal(rng)
        if i != "absent":
            s["_internal"] = i
    tags += ["tparams:%d" % min(nt, 3), "overlap:%d" % min(len(overlap), 3), "fresh:%d" % min(len(fresh), 2),
             "treturns:" + ("missing" if "returns" not in t else "none" if t["returns"] is None else "has"),
             "oreturns:" + ("missing" if "returns" not in o else "none" if o["returns"] is None else "has"),
             "tinternal:" + ("absent" if "_internal" not in t else "has"),
             "ointernal:" + ("absent" if "_internal" not in o else "body" if o["_internal"].get("body") else "nobody")]
    return t, o, tags


def order_of(rng_choice, names):
    s = sorted(names)
    if rng_choice == "sorted":
        return s
    if rng_choice == "reversed":
        return s[::-1]
    k = len(s) // 2
    return s[k:] + s[:k]


def gen(rng, n, tier="quick"):
    cases = []
    for i in range(n):
        r = rng.random()
        if r < 0.8:
            t, o, tags = gen_pair(rng)
            for ordk in (["sorted", "reversed"] if rng.random() < 0.5 else [rng.choice(["sorted", "reversed", "rotated"])]):
                cases.append({"fam": NAME, "fn": "ir_merge", "args": [t, o, ordk], "tags": tags + ["order:" + ordk]})
        else:
            p, q = spec_param(rng, []), spec_param(rng, [])
            if rng.random() < 0.1:
                p = {}
            if rng.random() < 0.1:
                q = {}
            ordk = rng.choice(["sorted", "reversed", "rotated"])
            cases.append({"fam": NAME, "fn": "join_non_none", "args": [p, q, ordk], "tags": ["join", "order:" + ordk]})
    return cases


# ------------------------------------------------------------------ wire
def _pi_pj(t, o, ordk):
    tn = [n for n, _ in t["params"]]
    on = [n for n, _ in o["params"]]
    return order_of(ordk, [n for n in on if n in tn]), order_of(ordk, ["doc", "typ", "default"])


def request(case):
    fn, a = case["fn"], case["args"]
    if fn == "ir_merge":
        t, o, ordk = a
        pi, pj = _pi_pj(t, o, ordk)
        return dumps([Sym(fn), pi, pj, irwire.enc_ir(build_ir(t)), irwire.enc_ir(build_ir(o))])
    if fn == "join_non_none":
        p, q, ordk = a
        return dumps([Sym(fn), order_of(ordk, ["doc", "typ", "default"]),
                      irwire.enc_gparam(build_param(p)), irwire.enc_gparam(build_param(q))])
    raise KeyError(fn)


def run_impl(case):
    m = impl()
    fn, a = case["fn"], copy.deepcopy(case["args"])
    if fn == "ir_merge":
        t, o = build_ir(a[0]), build_ir(a[1])
        before = dumps(irwire.enc_ir(o))

        def call():
            r = m.parser_utils.ir_merge(t, o)
            assert r is t
            return r
        res = dumps(outcome(call, irwire.enc_ir))
        if dumps(irwire.enc_ir(o)) != before and res.startswith("(ok"):
            # `other` is documented as shared, not as modified
            return "(frame-violation other-changed)"
        return res
    if fn == "join_non_none":
        p, q = build_param(a[0]), build_param(a[1])
        return dumps(irwire.enc_gparam(m.parser_utils._join_non_none(p, q)))
    raise KeyError(fn)


def nontrivial(case):
    if case["fn"] == "ir_merge":
        t, o = case["args"][0], case["args"][1]
        return len(t["params"]) >= 1 and len(o["params"]) >= 1
    return len(case["args"][0]) >= 1 and len(case["args"][1]) >= 1
