#!/usr/bin/env python3
"""Entry point: python3 harness/check.py --property Cxx --tier quick|thorough

One run: regenerate constants from /repo, lint, build the Coq development, re-check props/Cxx.v, build the
extracted driver, run the correspondence families (corpus first), evaluate the property on the
implementation, classify failures against KNOWN_FINDINGS.txt, print the verdict, write evidence/Cxx.json."""
import argparse
import glob
import importlib
import json
import os
import random
import sys
import time
import traceback

HERE = os.path.dirname(os.path.abspath(__file__))
VERIF = os.path.dirname(HERE)
sys.path.insert(0, HERE)
VENV_PY = "/venv/bin/python"
REPO = os.environ.get("VERIF_REPO", "/repo")


def reexec():
    want_env = {"PYTHONPATH": REPO, "PYTHONHASHSEED": "0", "PYTHONDONTWRITEBYTECODE": "1"}
    if os.path.realpath(sys.executable) != os.path.realpath(VENV_PY) or any(os.environ.get(k) != v for k, v in want_env.items()):
        env = dict(os.environ, **want_env)
        env["VERIF_ENV_LINE_LENGTH"] = env.pop("DOCTRANS_LINE_LENGTH", env.get("VERIF_ENV_LINE_LENGTH", ""))
        os.execve(VENV_PY, [VENV_PY, os.path.abspath(sys.argv[0])] + sys.argv[1:], env)


def parse_known_findings():
    """-> (open: {(prop, cls): text}, fixed: [(prop, sha, text)])"""
    open_, fixed = {}, []
    p = os.path.join(VERIF, "KNOWN_FINDINGS.txt")
    if not os.path.exists(p):
        return open_, fixed
    lines = list(open(p))
    # development aid: proposed `finding:` lines that are not yet in KNOWN_FINDINGS.txt, read from the file named by the
    # environment variable VERIF_EXTRA_FINDINGS (used only when the variable is set; `fixed:` lines there are ignored)
    extra = os.environ.get("VERIF_EXTRA_FINDINGS")
    if extra and os.path.exists(extra):
        lines += [l for l in open(extra) if l.strip().startswith("finding:")]
    for line in lines:
        line = line.strip()
        if not line or line.startswith("#"):
            continue
        if line.startswith("finding:"):
            f = dict(kv.split("=", 1) for kv in line.split()[1:4] if "=" in kv)
            text = " ".join(line.split()[4:])
            open_[(f.get("property"), f.get("class"))] = {"witness": f.get("witness"), "text": text}
        elif line.startswith("fixed:"):
            parts = line.split()
            fixed.append((parts[1].split("=", 1)[1], parts[2], " ".join(parts[3:])))
    return open_, fixed


def load_corpus(fam_name):
    cases = []
    for f in sorted(glob.glob(os.path.join(VERIF, "corpus", fam_name, "*.json"))):
        try:
            c = json.load(open(f))
            cases.extend(c if isinstance(c, list) else [c])
        except Exception:  # noqa
            pass
    return cases


def main():
    ap = argparse.ArgumentParser()
    ap.add_argument("--property", required=True)
    ap.add_argument("--tier", default=os.environ.get("VERIF_TIER", "quick"), choices=["quick", "thorough"])
    ap.add_argument("--no-build", action="store_true", help="development only: skip the Coq build")
    args = ap.parse_args()
    reexec()
    from common import DEFAULT_SEED, write_json, ModelError
    import build
    import corr

    pid, tier = args.property, args.tier
    seed = int(os.environ.get("VERIF_SEED") or DEFAULT_SEED)
    t0 = time.time()
    prop = importlib.import_module("prop_" + pid)
    open_findings, fixed = parse_known_findings()
    # evidence/ and replays/ describe /repo itself; a run against a scratch worktree (VERIF_REPO, used to evaluate
    # seeded changes) writes to a scratch directory instead so that committed evidence is never overwritten
    scratch = os.environ.get("VERIF_OUT") or (None if os.path.realpath(REPO) == "/repo" else
                                               os.path.join("/tmp", "verif_out_" + os.path.basename(os.path.realpath(REPO))))
    evidence_path = os.path.join(scratch or VERIF, "evidence", pid + ".json")
    replay_dir = os.path.join(scratch or VERIF, "replays")
    os.makedirs(os.path.dirname(evidence_path), exist_ok=True)
    os.makedirs(replay_dir, exist_ok=True)

    # ---- 1-4 build
    if args.no_build:
        st = {"make_ok": True, "driver_ok": True, "lint": [], "error": None, "constants_ok": True, "make_s": 0}
    else:
        st = build.build_all(log=os.path.join(build.COQ, "make.log"))
    pr = build.check_prop(prop.COQ_PROP, thorough=(tier == "thorough"))
    obl, dis = build.obligations_of(prop.COQ_PROP) if os.path.exists(
        os.path.join(build.COQ, "props", prop.COQ_PROP + ".v")) else ([], [])
    proof_ok = bool(pr["prop_ok"]) and len(obl) == len(dis) and not st["lint"] and st["constants_ok"]
    proof_problem = None
    if not proof_ok:
        proof_problem = pr.get("error") or st.get("error") or {"message": "stale or missing .vo in the cone of props/%s.v" % pid}

    # ---- implementation importable?
    violations = []   # list of dict(case, what, class)
    import_error = None
    try:
        from common import impl
        ns = impl()
        if getattr(prop, "NEEDS_CLI", False) and hasattr(ns, "import_error"):
            raise ns.import_error
    except Exception as e:  # noqa
        import_error = traceback.format_exc()
        violations.append({"case": {"import": "doctrans"}, "what": "doctrans cannot be imported: %s" % e, "class": None})

    # ---- 5 correspondence
    corr_results, corr_ok = [], True
    rng = random.Random(seed)
    if import_error is None and st["driver_ok"]:
        for fam, nq, nt in prop.FAMILIES:
            n = nq if tier == "quick" else nt
            cases = load_corpus(fam.NAME) + fam.gen(random.Random(rng.random()), n, tier)
            try:
                r = corr.run_family(fam, cases)
            except Exception as e:  # noqa
                r = {"family": fam.NAME, "total": len(cases), "agree": 0, "unmodelled": 0, "mismatches": [],
                     "model_error": "harness exception: %s" % traceback.format_exc()[-800:], "nontrivial_distinct": 0,
                     "histogram": {}}
            if r["mismatches"] or r["model_error"]:
                corr_ok = False
            corr_results.append(r)
    elif import_error is None:
        corr_ok = False
        corr_results.append({"family": "*", "model_error": "driver not built: %s" % (st.get("error"),), "total": 0,
                             "agree": 0, "unmodelled": 0, "mismatches": [], "nontrivial_distinct": 0, "histogram": {}})

    # ---- 6 oracle on the implementation
    orc = {"evaluations": 0, "distinct_nontrivial": 0, "failures": [], "histogram": {}, "samples": [], "rule": ""}
    if import_error is None:
        try:
            orc = prop.oracle(random.Random(rng.random()), tier)
        except ModelError as e:
            corr_ok = False
            corr_results.append({"family": "oracle", "model_error": str(e), "total": 0, "agree": 0, "unmodelled": 0,
                                 "mismatches": [], "nontrivial_distinct": 0, "histogram": {}})
        except Exception as e:  # noqa
            orc["failures"] = [{"case": {"oracle": "exception"}, "what": traceback.format_exc()[-1500:], "class": None}]
    dis_prop = orc.get("model_impl_property_disagreements", [])
    if dis_prop:
        corr_ok = False

    # ---- 7 verdict
    known_seen = {}
    for f in orc["failures"]:
        cls = f.get("class")
        if cls is not None and (pid, cls) in open_findings:
            known_seen.setdefault(cls, f)
        else:
            violations.append(f)
    # replay stored witnesses of open findings for this property
    for (p_, cls), info in sorted(open_findings.items()):
        if p_ != pid or cls in known_seen:
            continue
        wpath = os.path.join(VERIF, info["witness"]) if info.get("witness") else None
        if wpath and os.path.exists(wpath) and hasattr(prop, "check_case") and import_error is None \
                and getattr(prop, "WITNESS_REPLAY", True):
            try:
                ok, what = prop.check_case(json.load(open(wpath))["case"])
                if not ok:
                    known_seen[cls] = {"case": json.load(open(wpath))["case"], "what": what, "class": cls}
            except Exception:  # noqa
                pass
    for cls, f in sorted(known_seen.items()):
        print("KNOWN-FINDING: property=%s class=%s %s" % (pid, cls, open_findings[(pid, cls)]["text"]))

    exit_code = 0
    stamp = "%s-%s-%d" % (pid, tier, seed)
    if violations:
        rp = os.path.join(replay_dir, stamp + ".json")
        write_json(rp, {"property": pid, "kind": "failing-input", "seed": seed, "tier": tier,
                        "violations": violations[:25], "count": len(violations), "import_error": import_error,
                        "proof_ok": proof_ok, "corr_ok": corr_ok}, sort_keys=False)
        print("VIOLATION property=%s replay=%s" % (pid, rp))
        exit_code = 1
    elif not proof_ok or not corr_ok:
        rp = os.path.join(replay_dir, stamp + "-unproved.json")
        mism = [m for r in corr_results for m in r.get("mismatches", [])][:25]
        write_json(rp, {"property": pid, "kind": "proof-or-correspondence-broken", "seed": seed, "tier": tier,
                        "proof_ok": proof_ok, "theorem_or_lemma_that_no_longer_checks": proof_problem,
                        "corr_ok": corr_ok,
                        "correspondence_that_no_longer_checks": [
                            {"family": r["family"], "mismatches": len(r.get("mismatches", [])), "model_error": r.get("model_error")}
                            for r in corr_results if r.get("mismatches") or r.get("model_error")],
                        "mismatching_cases": mism, "property_evaluation_disagreements": dis_prop[:25],
                        "note": "no input inside the proved region was found on which the implementation fails the property"}, sort_keys=False)
        print("VIOLATION property=%s replay=%s no-failing-input-found" % (pid, rp))
        exit_code = 1

    # ---- 8 evidence
    trusted = list(getattr(prop, "TRUSTED", [])) + [
        "Coq 8.16.1 kernel (coqc; vm_compute used for witnesses and computed facts; no native_compute)",
        "axioms reported by Print Assumptions under props/%s.v: %s" % (pid, ", ".join(pr.get("axioms") or []) or "none (Closed under the global context)"),
        "extraction: ExtrOcamlBasic only (bool, option, unit, list, prod, sumbool, sumor -> OCaml; ascii/nat/N/Z/positive stay Coq inductives), OCaml 4.13.1 ocamlopt, coq/extract/driver.ml (character moving only)",
        "correspondence harness (harness/*.py): generators, canonicalisers, sampling; harness/extract_constants.py",
        "hand-written model coq/model/*.v is tied to /repo only by the correspondence families listed in coverage.correspondence",
    ]
    cov = {
        "obligations": len(obl), "discharged": len(dis),
        "checker_cmd": "cd coq && make && " + " && ".join("coqc -Q . DT " + f for f in pr.get("files") or ["props/%s.v" % pid]) + (
            " && " + " && ".join("coqchk -o -Q . DT DT." + f[:-2].replace("/", ".") for f in pr.get("files") or []) if tier == "thorough" else ""),
        "trusted_base": trusted,
        "evaluations": int(orc.get("evaluations", 0)) + sum(r.get("total", 0) for r in corr_results),
        "distinct_nontrivial": int(orc.get("distinct_nontrivial", 0)) + sum(r.get("nontrivial_distinct", 0) for r in corr_results),
        "rule": "oracle: " + str(orc.get("rule", "")) + " | correspondence: distinct agreeing requests that the family marks non-trivial",
        "samples": (orc.get("samples") or [])[:8] + [r["mismatches"][0] for r in corr_results if r.get("mismatches")][:3]
                   or [{"note": "no cases ran"}],
        "theorems": sorted(n for n in obl if n.startswith("props/")),
        "proof_ok": proof_ok, "proof_problem": proof_problem,
        "print_assumptions_closed": pr.get("closed"),
        "coqchk": pr.get("coqchk"),
        "correspondence": [{k: r.get(k) for k in ("family", "total", "agree", "unmodelled", "nontrivial_distinct", "model_error", "extraction_crosscheck")}
                           | {"mismatches": len(r.get("mismatches", []))} for r in corr_results],
        "input_distribution": {"oracle": orc.get("histogram", {}),
                               "correspondence": {r["family"]: r.get("histogram", {}) for r in corr_results}},
        "oracle_failures_by_class": _count_by_class(orc["failures"]),
        "known_findings_reported": sorted(known_seen),
        "build": {k: st.get(k) for k in ("constants_ok", "make_ok", "driver_ok", "make_s", "lint")},
        "exhaustive": bool(orc.get("exhaustive", False)),
    }
    ev = {"property_id": pid, "tier": tier, "seed": seed, "level": "proof", "coverage": cov,
          "assumptions": trusted, "wall_s": round(time.time() - t0, 2), "violations": len(violations) if violations else (0 if exit_code == 0 else 1)}
    write_json(evidence_path, ev)
    print("%s %s: proof_ok=%s corr_ok=%s oracle_evals=%s failures=%d (known classes: %s) violations=%d wall=%.1fs" % (
        pid, tier, proof_ok, corr_ok, orc.get("evaluations"), len(orc["failures"]), ",".join(sorted(known_seen)) or "-",
        len(violations), time.time() - t0))
    sys.exit(exit_code)


def _count_by_class(failures):
    d = {}
    for f in failures:
        k = f.get("class") or "UNCLASSIFIED"
        d[k] = d.get(k, 0) + 1
    return d


if __name__ == "__main__":
    main()
